import Seccomp.Model.Text
import Seccomp.Model.Policy
import Seccomp.Proofs.Lemmas.TextLemmas
import Seccomp.Gen.Unpack
/-!
# C14 — text and configuration forms denote the same policy

The theorems are about `Model/Text.lean` instantiated with the **regenerated** facts of `Gen/Names.lean`
(name tables in literal order, which sides of the comparisons are lower-cased, the struct tags, the
`Action` constants, the toolchain's `unicode.ToLower` table).  A change of filter.go that alters any of these
facts makes the translator emit different data and the theorems below are re-checked against it.

Strings are rune sequences (`List Nat`, see Model/Text.lean); every statement about `rs : List Nat` covers every
Go string (valid UTF-8 or not) through `Text.decodeAll`, and the `String` versions are instances.

*Partial* (stated in DESIGN.md §6 C14): go-ucfg, yaml.v2 and encoding/json are exercised by the `config`
correspondence stream, not modelled; what is proved about the configuration path is that the field names the
three encodings use are the same (`tags_consistent`) and that every name the encoders print parses back
(`unpack_print_roundtrip`, `op_unpack_print_roundtrip`).
-/

namespace C14
open Text

/-! ## the documented tables (README, cmd/sandbox/seccomp.yml; constants of `linux/seccomp.h`) -/

/-- the seven documented action names with the kernel's `SECCOMP_RET_*` values -/
def documentedActions : List (Nat × String) := [
  (0x00000000, "kill_thread"), (0x80000000, "kill_process"), (0x00030000, "trap"), (0x00050000, "errno"),
  (0x7ff00000, "trace"), (0x7ffc0000, "log"), (0x7fff0000, "allow")]

/-- `SECCOMP_RET_USER_NOTIF`: a constant of the package (`ActionUserNotify`) that has no name -/
def userNotif : Nat := 0x7fc00000

def documentedOperations : List String :=
  ["Equal", "NotEqual", "GreaterThan", "LessThan", "GreaterOrEqual", "LessOrEqual", "BitsSet", "BitsNotSet"]

/-- the keys of the documented configuration layout (cmd/sandbox/seccomp.yml) -/
def documentedKeys : List (String × List String) := [
  ("Policy", ["default_action", "syscalls"]),
  ("SyscallGroup", ["names", "names_with_args", "action"]),
  ("NameWithConditions", ["name", "arguments"]),
  ("Condition", ["argument", "operation", "value"])]

/-! ## facts about the regenerated tables, decided by the kernel -/

theorem action_keys_unique : KeysUnique Gen.actionNames := by decide
theorem action_names_unique : NamesUnique Gen.actionNames := by decide

/-- the names in the table are already lower-case ASCII (so lower-casing only the input is enough) -/
theorem action_names_lowercase :
    ∀ e ∈ Gen.actionNames, ∀ r ∈ runes e.2, (97 ≤ r ∧ r ≤ 122) ∨ r = 95 := by decide

/-- a loop whose body returns at the first entry that satisfies `P` (storing `F` of it) and otherwise
    goes on with the state unchanged is a `find?` -/
theorem forRange_find {κ ν α : Type} (body : κ → ν → Option α → UCtl α) (after : Option α → URes α)
    (P : κ → ν → Bool) (F : κ → ν → α)
    (h : ∀ k v st, body k v st = if P k v = true then UCtl.ret (some (F k v)) false else UCtl.next st) :
    ∀ (es : List (κ × ν)) (st : Option α),
      forRange body after es st =
        match es.find? (fun e => P e.1 e.2) with
        | some e => URes.done (some (F e.1 e.2)) false
        | none => after st := by
  intro es
  induction es with
  | nil => intro st; rfl
  | cons e rest ih =>
    intro st
    obtain ⟨k, v⟩ := e
    simp only [forRange, h, List.find?_cons]
    by_cases hp : P k v = true
    · simp [hp]
    · have hp' : P k v = false := by simpa using hp
      simp only [hp', Bool.false_eq_true, if_false]
      exact ih st

/-- **Translator tie, `Action.Unpack`.**  The rendering of the function body regenerated from filter.go
    (`Gen.actionUnpackSkel`: its statements, the `range` over the map as a loop over the entries in an
    arbitrary iteration order) does, for every input and every order, what the reference does: it
    lower-cases the input, compares it with each name as it stands, stores the first matching entry's
    value and returns nil, or stores nothing and returns an error.  Proved by cases on whether an entry
    matches, not on how the source arranges the test. -/
theorem action_unpack_tie (order : List (Nat × String)) (rs : List Nat) :
    Gen.actionUnpackSkel order rs = toURes (unpackWith order true false rs) := by
  unfold Gen.actionUnpackSkel unpackWith
  simp only []
  rw [forRange_find _ _ (fun _ v => runes v == lower rs) (fun k _ => k)]
  · simp only [if_true, Bool.false_eq_true, if_false]
    cases order.find? (fun e => runes e.2 == lower rs) <;> simp [toURes]
  · intro k v st
    by_cases h : runes v = lower rs <;> simp [h]

/-- **Translator tie, `Operation.Unpack`**: both sides of the comparison are lower-cased; the first member
    of `Operations` that matches is stored. -/
theorem operation_unpack_tie (ops : List String) (rs : List Nat) :
    Gen.operationUnpackSkel ops rs = toURes (unpackOpWith ops true true rs) := by
  unfold Gen.operationUnpackSkel unpackOpWith
  simp only []
  rw [forRange_find _ _ (fun _ v => lower (runes v) == lower rs) (fun _ v => v)]
  · simp only [if_true]
    induction ops with
    | nil => simp [toURes]
    | cons o rest ih =>
      simp only [List.map_cons, List.find?_cons]
      by_cases h : lower (runes o) = lower rs
      · simp [h, toURes]
      · have h' : (lower (runes o) == lower rs) = false := by simpa using h
        simp only [h']
        exact ih
  · intro k v st
    by_cases h : lower (runes v) = lower rs <;> simp [h]

/-- the translator rendered every statement of both functions -/
theorem unpack_rendered : Gen.unpackNotes = [] := by decide

/-! ## actions -/

/-- **Unknown names are rejected.**  If `Action.Unpack s` succeeds with `a`, then `(a, strings.ToLower s)` is an entry
    of `actionNames`: nothing is accepted by default, and in particular nothing maps to a permissive action
    unless it *is* that action's name. -/
theorem unpack_sound (rs : List Nat) (a : Nat) (h : unpackActionRunes rs = some a) :
    ∃ n, (a, n) ∈ Gen.actionNames ∧ runes n = lower rs := by
  unfold unpackActionRunes unpackWith at h
  simp only [if_true, Bool.false_eq_true, if_false, Option.map_eq_some_iff] at h
  obtain ⟨e, he, rfl⟩ := h
  exact ⟨e.2, List.mem_of_find?_eq_some he, by simpa using List.find?_some he⟩

/-- the converse: a string whose lower-case form is no table entry is rejected (the error return) -/
theorem unknown_rejected (rs : List Nat) (h : ∀ e ∈ Gen.actionNames, runes e.2 ≠ lower rs) :
    unpackActionRunes rs = none := by
  cases hu : unpackActionRunes rs with
  | none => rfl
  | some a =>
    obtain ⟨n, hn, hr⟩ := unpack_sound rs a hu
    exact absurd hr (h (a, n) hn)

/-- acceptance, exactly: `Unpack s = a` iff the lower-cased string is the name of `a` -/
theorem unpack_iff (rs : List Nat) (a : Nat) :
    unpackActionRunes rs = some a ↔ ∃ n, (a, n) ∈ Gen.actionNames ∧ runes n = lower rs := by
  constructor
  · exact unpack_sound rs a
  · rintro ⟨n, hn, hr⟩
    unfold unpackActionRunes unpackWith
    simp only [if_true, Bool.false_eq_true, if_false]
    rw [find?_of_unique (a := (a, n)) hn (by simp [hr])]
    · rfl
    · intro x hx y hy hpx hpy
      apply action_names_unique x hx y hy
      simp only [beq_iff_eq] at hpx hpy
      rw [hpx, hpy]

/-- **Every documented name parses in any ASCII letter case** to its constant. -/
theorem unpack_complete (e : Nat × String) (he : e ∈ Gen.actionNames) (rs : List Nat)
    (hascii : ∀ r ∈ rs, r < 128) (hcase : rs.map asciiLower = runes e.2) :
    unpackActionRunes rs = some e.1 :=
  (unpack_iff rs e.1).2 ⟨e.2, he, by rw [lower_ascii hascii, hcase]⟩

/-- the only non-ASCII code points that `strings.ToLower` maps into ASCII are U+0130 (`İ ↦ i`) and U+212A
    (KELVIN SIGN `K ↦ k`), for the Unicode tables of the toolchain in use: these are the only non-ASCII characters that
    can occur in an accepted action or operation name (the names are ASCII) -/
theorem lower_ascii_preimage (r : Nat) (h : lowerRune r < 128) : r < 128 ∨ r = 0x130 ∨ r = 0x212A := by
  by_cases hr : r < 128
  · exact .inl hr
  · right
    unfold lowerRune at h
    simp only [hr, if_false] at h
    cases hf : Gen.lowerRanges.find? (fun cr => decide (cr.lo ≤ r) && decide (r ≤ cr.hi)) with
    | none => simp only [hf] at h; omega
    | some cr =>
      simp only [hf] at h
      have hm := List.mem_of_find?_eq_some hf
      have hp := List.find?_some hf
      simp only [Bool.and_eq_true, decide_eq_true_eq] at hp
      have hc := lowerRanges_above_ascii cr hm
      unfold RangeAboveAscii at hc
      unfold lowerRange at h
      rcases hc with hc | ⟨hul, hlo⟩ | ⟨hul, hlo⟩ | ⟨heq, hv⟩
      · omega
      · simp only [hul, if_true] at h; omega
      · simp only [hul, Bool.false_eq_true, if_false] at h; omega
      · omega

/-- the characterisation on strings that consist of ASCII and the two exceptional code points is therefore the
    whole story: an accepted string has exactly the length of its name and every character lower-cases into ASCII -/
theorem accepted_chars (rs : List Nat) (a : Nat) (h : unpackActionRunes rs = some a) :
    ∀ r ∈ rs, r < 128 ∨ r = 0x130 ∨ r = 0x212A := by
  obtain ⟨n, hn, hr⟩ := unpack_sound rs a h
  intro r hrm
  apply lower_ascii_preimage
  have hmem : lowerRune r ∈ runes n := by rw [hr]; exact List.mem_map_of_mem hrm
  have := action_names_lowercase (a, n) hn (lowerRune r) hmem
  omega

/-- **The names are exactly the documented ones with the kernel's constants**; every key is a constant of the
    package; `user_notif` is a constant of the package and has no name; the compiler's set of valid default actions
    (`namedActions` in Model/Policy.lean) is the key set of the regenerated table. -/
theorem names_equal_documented :
    (∀ e ∈ Gen.actionNames, e ∈ documentedActions) ∧ (∀ e ∈ documentedActions, e ∈ Gen.actionNames) ∧
    Gen.actionNames.length = 7 ∧
    (∀ e ∈ Gen.actionNames, ∃ c ∈ Gen.actionConsts, c.2 = e.1) ∧
    (∃ c ∈ Gen.actionConsts, c.2 = userNotif) ∧ (∀ e ∈ Gen.actionNames, e.1 ≠ userNotif) ∧
    namedActions.map BitVec.toNat = Gen.actionNames.map (·.1) := by decide

/-- **Printing then parsing a named value gives the value back.** -/
theorem unpack_print_roundtrip :
    ∀ e ∈ Gen.actionNames, unpackActionRunes (runes (actionStringWith Gen.actionNames e.1)) = some e.1 := by decide

/-- the same on the model's `Word` level, for every valid default action of the compiler -/
theorem unpack_print_roundtrip_word : ∀ a ∈ namedActions, unpackAction (actionString a) = some a := by
  intro a ha
  simp only [namedActions, List.mem_cons, List.not_mem_nil, or_false] at ha
  rcases ha with rfl | rfl | rfl | rfl | rfl | rfl | rfl <;> decide +kernel

/-- **A value without a name prints as `unknown`**, and `unknown` does not parse: marshalling such a policy and
    reading it back is an error, never a silent change of the action. -/
theorem unknown_prints_unknown (a : Nat) (h : ∀ e ∈ Gen.actionNames, e.1 ≠ a) :
    actionStringWith Gen.actionNames a = "unknown" ∧ unpackActionRunes (runes "unknown") = none := by
  constructor
  · unfold actionStringWith
    have : Gen.actionNames.find? (fun e => e.1 == a) = none := by
      rw [List.find?_eq_none]
      intro x hx
      simpa using h x hx
    rw [this]
  · decide

/-- nothing is mapped to a permissive action by default: only the name `allow` (`log`) gives allow (log) -/
theorem permissive_only_by_name (rs : List Nat) :
    (unpackActionRunes rs = some 0x7fff0000 → lower rs = runes "allow") ∧
    (unpackActionRunes rs = some 0x7ffc0000 → lower rs = runes "log") := by
  have key : ∀ e ∈ Gen.actionNames, (e.1 = 0x7fff0000 → e.2 = "allow") ∧ (e.1 = 0x7ffc0000 → e.2 = "log") := by decide
  constructor
  · intro h
    obtain ⟨n, hn, hr⟩ := unpack_sound rs _ h
    rw [← hr]; exact congrArg runes ((key _ hn).1 rfl)
  · intro h
    obtain ⟨n, hn, hr⟩ := unpack_sound rs _ h
    rw [← hr]; exact congrArg runes ((key _ hn).2 rfl)

/-! ## operations -/

/-- lower-cased operation names are pairwise distinct -/
theorem op_names_unique :
    ∀ x ∈ Gen.operations, ∀ y ∈ Gen.operations, lower (runes x) = lower (runes y) → x = y := by decide

theorem op_names_ascii : ∀ o ∈ Gen.operations, ∀ r ∈ runes o, r < 128 := by decide

/-- **Unknown operation names are rejected**: an accepted string equals a member of `Operations` up to `ToLower` -/
theorem op_unpack_sound (rs : List Nat) (o : String) (h : unpackOperationRunes rs = some o) :
    o ∈ Gen.operations ∧ lower (runes o) = lower rs := by
  unfold unpackOperationRunes unpackOpWith at h
  simp only [if_true] at h
  exact ⟨List.mem_of_find?_eq_some h, by simpa using List.find?_some h⟩

theorem op_unpack_iff (rs : List Nat) (o : String) :
    unpackOperationRunes rs = some o ↔ o ∈ Gen.operations ∧ lower (runes o) = lower rs := by
  constructor
  · exact op_unpack_sound rs o
  · rintro ⟨ho, hr⟩
    unfold unpackOperationRunes unpackOpWith
    simp only [if_true]
    apply find?_of_unique ho (by simp [hr])
    intro x hx y hy hpx hpy
    apply op_names_unique x hx y hy
    simp only [beq_iff_eq] at hpx hpy
    rw [hpx, hpy]

/-- **Every documented operation parses in any ASCII letter case.** -/
theorem op_unpack_complete (o : String) (ho : o ∈ Gen.operations) (rs : List Nat)
    (hascii : ∀ r ∈ rs, r < 128) (hcase : rs.map asciiLower = (runes o).map asciiLower) :
    unpackOperationRunes rs = some o :=
  (op_unpack_iff rs o).2 ⟨ho, by rw [lower_ascii hascii, lower_ascii (op_names_ascii o ho), hcase]⟩

/-- **The operations are exactly the eight documented ones**, each is a constant of type `Operation`, and they are
    exactly the strings the compiler's `opOfString` (Model/Policy.lean) knows -/
theorem op_names_equal_documented :
    Gen.operations = documentedOperations ∧ Gen.operationConsts.map (·.2) = documentedOperations ∧
    (∀ o ∈ Gen.operations, (opOfString o).isSome = true) ∧
    (∀ s, (opOfString s).isSome = true → s ∈ Gen.operations) := by
  refine ⟨by decide, by decide, by decide, ?_⟩
  intro s hs
  unfold opOfString at hs
  repeat' split at hs
  all_goals first | (subst_vars; decide) | simp at hs

/-- **Printing (the string itself) then parsing an operation gives it back.** -/
theorem op_unpack_print_roundtrip : ∀ o ∈ Gen.operations, unpackOperationRunes (runes o) = some o := by decide

/-- the non-ASCII characters an accepted operation string can contain -/
theorem op_accepted_chars (rs : List Nat) (o : String) (h : unpackOperationRunes rs = some o) :
    ∀ r ∈ rs, r < 128 ∨ r = 0x130 ∨ r = 0x212A := by
  obtain ⟨ho, hr⟩ := op_unpack_sound rs o h
  intro r hrm
  apply lower_ascii_preimage
  have hmem : lowerRune r ∈ lower (runes o) := by rw [hr]; exact List.mem_map_of_mem hrm
  rw [lower_ascii (op_names_ascii o ho)] at hmem
  obtain ⟨x, hx, hxe⟩ := List.mem_map.1 hmem
  rw [← hxe]
  exact asciiLower_lt (op_names_ascii o ho x hx)

/-! ## struct tags -/

def policyStructs : List String := ["Policy", "SyscallGroup", "NameWithConditions", "Condition"]

/-- **For every exported field of the four policy structs the YAML key and the JSON key equal the key the
    configuration loader reads** (false before fix F9 for `Condition.Argument`: `position` vs `argument`); unexported
    fields carry no tags (they are skipped by all three encodings).  This makes "marshal, then read back through the
    loader" the identity on field names. -/
theorem tags_consistent :
    ∀ st ∈ Gen.structTags, st.1 ∈ policyStructs → ∀ f ∈ st.2,
      (f.exported = true → f.config.isSome = true ∧ f.yaml = f.config ∧ f.json = f.config) ∧
      (f.exported = false → f.config = none ∧ f.yaml = none ∧ f.json = none) := by decide

/-- the keys are the documented ones (cmd/sandbox/seccomp.yml), in declaration order, for all four structs -/
theorem keys_equal_documented :
    (Gen.structTags.filter (fun st => policyStructs.contains st.1)).map
        (fun st => (st.1, (st.2.filter (·.exported)).map (fun f => f.config.getD ""))) = documentedKeys := by decide

/-- `Filter` (outside the property: C14 is about policies): the JSON keys equal the configuration keys; the struct has
    no `yaml` tags, so yaml.v2 uses the lower-cased field name, which equals the configuration key for every field
    except `NoNewPrivs` (`nonewprivs` vs `no_new_privs`) — reported as an observation.  The statement stays true when
    the tag is added. -/
theorem tags_consistent_filter_partial :
    ∀ st ∈ Gen.structTags, st.1 = "Filter" → ∀ f ∈ st.2,
      f.json = f.config ∧
      (f.yaml = f.config ∨ (f.yaml = none ∧ some ((runes f.name).map asciiLower) = f.config.map runes) ∨ f.name = "NoNewPrivs") := by
  decide

/-- **What the loader is told to insist on** (go-ucfg `validate` / `default` tags of the policy structs): a group's
    action, an entry's name and its argument list and a condition's operation are `required` (a document that omits
    one of them — in particular a `names_with_args` entry without `arguments`, which would compile to a rule
    that can never match — is refused); argument index and value default to 0; nothing else is constrained. -/
theorem required_fields :
    (Gen.structTags.filter (fun st => policyStructs.contains st.1)).map
        (fun st => (st.1, (st.2.filter (·.exported)).map (fun f => (f.name, f.validate, f.dflt)))) =
      [("Policy", [("DefaultAction", none, none), ("Syscalls", none, none)]),
       ("SyscallGroup", [("Names", none, none), ("NamesWithCondtions", none, none), ("Action", some "required", none)]),
       ("NameWithConditions", [("Name", some "required", none), ("Conditions", some "required", none)]),
       ("Condition", [("Argument", none, some "0"), ("Operation", some "required", none), ("Value", none, some "0")])] := by
  decide

/-- non-vacuity: the five structs are present with the expected numbers of fields -/
theorem structs_present :
    Gen.structTags.map (fun st => (st.1, st.2.length)) =
      [("Filter", 3), ("Policy", 3), ("SyscallGroup", 4), ("NameWithConditions", 2), ("Condition", 3)] := by decide

/-! ## non-vacuity / examples -/

/-- ASCII case variants -/
example : unpackAction "Kill_Process" = some 0x80000000#32 := by decide
example : unpackAction "ALLOW" = some 0x7fff0000#32 := by decide
/-- U+212A KELVIN SIGN and U+0130: Unicode case mapping, as in Go -/
example : unpackAction "\u212Aill_thread" = some 0x00000000#32 := by decide
example : unpackAction "K\u0130LL_THREAD" = some 0x00000000#32 := by decide
/-- U+017F LONG S does not lower-case to `s`; fullwidth letters stay fullwidth -/
example : unpackOperation "Bit\u017FSet" = none := by decide
example : unpackAction "\uFF41llow" = none := by decide
example : unpackAction "" = none := by decide
example : unpackAction "allow " = none := by decide
example : unpackAction "user_notif" = none := by decide
example : unpackOperation "bitsnotset" = some "BitsNotSet" := by decide
example : unpackOperation "B\u0130TSSET" = some "BitsSet" := by decide
example : actionString 0x7fc00000#32 = "unknown" := by decide
example : actionString 0x00050001#32 = "unknown" := by decide

end C14
