import Seccomp.Gen.CacheSkeleton
import Seccomp.Proofs.Lemmas.CacheSpecLemmas
/-!
# C17 — the profiler never trusts an incomplete cached disassembly

The model is the file-system step machine of `Model/Cache.lean`.  A *run* is `doObjdump` started in
a world `World.start fs env`; the environment `env` fixes everything the run does not control:
what `go tool objdump` does (`ok`, `missing`, `fails out`), after how many primitive steps the
process is killed (`crashAt`, `none` = it is not killed), which I/O calls fail (`fault`), and how the
buffered writer splits its output between file and memory (`early`).  Every theorem below
quantifies over `env`, i.e. over every crash point and every fault sequence; there is no bound on
the length of the listing.  `L : Str → Str` is the disassembly as a function of the binary's hash
("the hash identifies the binary, the disassembly is a function of the binary").

Theorems are stated about the hand-written reference `CacheSpec.doObjdump`; `tie` proves that the
rendering of the source which `vextract` regenerates on every run (`Gen.doObjdump`) *is* that
function, and `second_run_source` restates the main result for it.

**Partial** (what is assumed rather than proved, see also the evidence file): `rename(2)` replaces
the target atomically (`Cache.osRename`); a file is identified with its path; writes to different
files do not interfere; SHA-256 identifies the binary.  On the real binary the crash points are
sampled (process killed at the chunk boundaries of the disassembler's output), not enumerated.
-/

namespace C17
open Cache CacheSpec

/-- what a run is given: the cache path, the listing of the binary it looks at, a hash as
    `hashBinary` produces it -/
structure RunOK (L : Str → Str) (dump hash : Str) (env : Env) : Prop where
  dump : env.dump = dump
  listing : env.listing = L hash
  hash : HashOK hash

/-- one run of the cache step from file system `fs` in environment `env` -/
def run (binary hash : Str) (fs : FS) (env : Env) : (Str × GoErr) × World :=
  doObjdump binary hash (World.start fs env)

/-- **The invariant.**  The final cache path never holds an incomplete file that looks valid: if
    it was honest before a run it is honest after it — whatever the disassembler did, wherever the
    run was killed, whichever I/O call failed.  (The path is only ever written by `rename` of a
    temporary file that was completely written, flushed and closed: `CacheSpec.store_main`.) -/
theorem cache_hit_only_if_complete (L : Str → Str) (dump : Str) (hs : 47 ∈ dump) (fs : FS)
    (binary hash : Str) (env : Env) (h : RunOK L dump hash env) (hi : Honest L dump fs) :
    Honest L dump (run binary hash fs env).2.fs := by
  have := doObjdump_honest L binary hash (World.start fs env) rfl (by rw [show (World.start fs env).env = env from rfl, h.dump]; exact hs)
    h.listing h.hash (by rw [show (World.start fs env).env = env from rfl, h.dump]; exact hi)
  rw [show (World.start fs env).env = env from rfl, h.dump] at this
  exact this

/-- a cache that does not exist is honest -/
theorem cold_cache_honest (L : Str → Str) (dump : Str) (fs : FS) (h : fs dump = none) : Honest L dump fs := by
  intro c hc; rw [h] at hc; cases hc

/-- a normal run (not killed) over an honest cache: an error, or a complete file -/
theorem normal_run_full_or_error (L : Str → Str) (dump : Str) (hs : 47 ∈ dump) (fs : FS) (hi : Honest L dump fs)
    (binary hash : Str) (env : Env) (h : RunOK L dump hash env) (hn : env.crashAt = none) :
    (run binary hash fs env).1.2 ≠ .nil ∨
    ((run binary hash fs env).1.1 = dump ∧ (run binary hash fs env).2.fs dump = some (complete L hash)) := by
  by_cases hok : (run binary hash fs env).1.2 = .nil
  · right
    have := doObjdump_ok_complete L binary hash (World.start fs env) rfl (by simp [World.start, hn]) hn
      (by rw [show (World.start fs env).env = env from rfl, h.dump]; exact hs) h.listing h.hash
      (by rw [show (World.start fs env).env = env from rfl, h.dump]; exact hi) hok
    rw [show (World.start fs env).env = env from rfl, h.dump] at this
    exact this
  · exact .inl hok

/-- **Second run: the full listing or an error.**  Start from any file system whose cache path is
    honest (for instance: no cache file).  Run₁ is arbitrary: any behaviour of the disassembler
    (works, missing, non-zero exit after printing anything), killed after any number of primitive
    steps or not at all, any I/O failures, any split of the buffered output, even another binary.
    Then a normal run₂ (not killed; its disassembler and its I/O may fail too) returns an error, or
    the cache path, and that file is **complete for the exact binary** of run₂: its hash line
    followed by the whole listing — never a strict prefix. -/
theorem second_run_full_or_error (L : Str → Str) (dump : Str) (hs : 47 ∈ dump)
    (fs₀ : FS) (h₀ : Honest L dump fs₀)
    (binary₁ hash₁ : Str) (env₁ : Env) (h₁ : RunOK L dump hash₁ env₁)
    (binary₂ hash₂ : Str) (env₂ : Env) (h₂ : RunOK L dump hash₂ env₂) (hn : env₂.crashAt = none) :
    (run binary₂ hash₂ (run binary₁ hash₁ fs₀ env₁).2.fs env₂).1.2 ≠ .nil ∨
    ((run binary₂ hash₂ (run binary₁ hash₁ fs₀ env₁).2.fs env₂).1.1 = dump ∧
     (run binary₂ hash₂ (run binary₁ hash₁ fs₀ env₁).2.fs env₂).2.fs dump = some (complete L hash₂)) :=
  normal_run_full_or_error L dump hs _ (cache_hit_only_if_complete L dump hs fs₀ binary₁ hash₁ env₁ h₁ h₀)
    binary₂ hash₂ env₂ h₂ hn

/-- the file system after a history of runs, each with its own binary, hash and environment -/
def after (fs : FS) : List (Str × Str × Env) → FS
  | [] => fs
  | (b, h, e) :: rest => after (run b h fs e).2.fs rest

/-- **Any history.**  After any number of interrupted, failed or successful runs, a normal run
    returns an error or a file that is complete for its binary. -/
theorem history_full_or_error (L : Str → Str) (dump : Str) (hs : 47 ∈ dump)
    (hist : List (Str × Str × Env)) (hh : ∀ x ∈ hist, RunOK L dump x.2.1 x.2.2)
    (fs₀ : FS) (h₀ : Honest L dump fs₀)
    (binary hash : Str) (env : Env) (h : RunOK L dump hash env) (hn : env.crashAt = none) :
    (run binary hash (after fs₀ hist) env).1.2 ≠ .nil ∨
    ((run binary hash (after fs₀ hist) env).1.1 = dump ∧
     (run binary hash (after fs₀ hist) env).2.fs dump = some (complete L hash)) := by
  have : Honest L dump (after fs₀ hist) := by
    induction hist generalizing fs₀ with
    | nil => exact h₀
    | cons x rest ih =>
      obtain ⟨b, h', e⟩ := x
      exact ih (fun y hy => hh y (List.mem_cons_of_mem _ hy)) _
        (cache_hit_only_if_complete L dump hs fs₀ b h' e (hh _ List.mem_cons_self) h₀)
  exact normal_run_full_or_error L dump hs _ this binary hash env h hn

/-- A cache hit is only ever a complete file: whenever a normal run reports success without having
    run the disassembler's output into place — in fact whenever it reports success at all — the file
    it names starts with the hash and continues with the whole listing. -/
theorem returned_file_never_truncated (L : Str → Str) (dump : Str) (hs : 47 ∈ dump) (fs : FS) (hi : Honest L dump fs)
    (binary hash : Str) (env : Env) (h : RunOK L dump hash env) (hn : env.crashAt = none)
    (hok : (run binary hash fs env).1.2 = .nil) (c : Str)
    (hc : (run binary hash fs env).2.fs (run binary hash fs env).1.1 = some c) :
    c = hash ++ bytes "\n" ++ L hash := by
  rcases normal_run_full_or_error L dump hs fs hi binary hash env h hn with h' | ⟨h1, h2⟩
  · exact absurd hok h'
  · rw [h1, h2] at hc; cases hc; rfl

/-! ### the tie to the source -/

/-- case split on an error value: the non-nil case must close by `simp` (both sides return it) -/
macro "nilcase " e:term " as " h:ident : tactic =>
  `(tactic| refine (dite ($e = GoErr.nil) (fun $h => ?_) (fun $h => by simp [$h:ident])))

/-! The store path of `doObjdump`, primitive by primitive in execution order.  Every stage first tries
    `rfl` (a rendering that already has the reference's shape needs no case analysis) and otherwise
    names the primitive's result and splits on its error value; so the proof follows the *run* of the
    function, not the arrangement of its `if`s, and an equivalent arrangement of the same calls
    (early returns, error accumulation, …) proves the same way. -/
macro "store6" : tactic => `(tactic| all_goals (first | rfl | (
  generalize osRename _ _ _ = mv
  obtain ⟨e6, w10⟩ := mv
  dsimp only
  nilcase e6 as h9
  subst h9
  simp)))
macro "store5" : tactic => `(tactic| all_goals (first | rfl | (
  generalize fileClose _ _ = fc
  obtain ⟨e5, w9⟩ := fc
  dsimp only
  nilcase e5 as h8
  subst h8
  store6)))
macro "store4" : tactic => `(tactic| all_goals (first | rfl | (
  generalize flush _ _ = fl
  obtain ⟨e4, w8⟩ := fl
  dsimp only
  nilcase e4 as h7
  subst h7
  store5)))
macro "store3" : tactic => `(tactic| all_goals (first | rfl | (
  generalize cmdRun _ _ = cr
  obtain ⟨e3, w7⟩ := cr
  dsimp only
  nilcase e3 as h6
  subst h6
  store4)))
macro "store2" : tactic => `(tactic| all_goals (first | rfl | (
  generalize writeString _ _ _ = ws
  obtain ⟨⟨wn, e2⟩, w6⟩ := ws
  dsimp only
  nilcase e2 as h5
  subst h5
  store3)))
macro "store_path" : tactic => `(tactic| all_goals (first | rfl | (
  generalize osCreateTemp _ _ _ = t
  obtain ⟨⟨tf, e1⟩, w5⟩ := t
  dsimp only
  nilcase e1 as h4
  subst h4
  store2)))

/-- **Translator tie**: the Lean rendering of `doObjdump` and `hashBinary` that `vextract`
    regenerates from cmd/seccomp-profiler/main.go is, for every input, world and behaviour `U` of
    untranslatable statements, equal to the hand-written reference (results and final world). -/
theorem tie (U : Cache.Unsupported) (binary hash : Str) (w : World) :
    Gen.doObjdump U binary hash w = CacheSpec.doObjdump binary hash w ∧
    Gen.hashBinary U binary w = CacheSpec.hashBinary binary w := by
  refine ⟨?_, ?_⟩
  · unfold Gen.doObjdump CacheSpec.doObjdump CacheSpec.lookup CacheSpec.store CacheSpec.cleanup
    generalize cachedDumpFile binary w = d
    obtain ⟨⟨dumpFile, err⟩, w1⟩ := d
    dsimp only
    nilcase err as he
    subst he
    simp only [ne_eq, not_true_eq_false, if_false]
    generalize osOpen dumpFile w1 = o
    obtain ⟨⟨f, err2⟩, w2⟩ := o
    dsimp only
    by_cases h2 : err2 = .nil
    · subst h2
      generalize fileRead f (mkBuf 64) w2 = r
      obtain ⟨⟨n, err3⟩, buf, w3⟩ := r
      dsimp only
      generalize fileClose f w3 = c
      obtain ⟨errc, w4⟩ := c
      dsimp only
      -- the three facts the cache test consists of, one by one (however the source combines them)
      by_cases ha : err3 = GoErr.nil <;> by_cases hb : n = buf.length <;> by_cases hc : hash = buf <;>
        (have hc' : (buf = hash) = (hash = buf) := propext ⟨Eq.symm, Eq.symm⟩
         simp only [ha, hb, hc, hc', and_true, true_and, and_false, false_and, not_true_eq_false, not_false_eq_true,
           or_false, false_or, or_true, true_or, if_true, if_false, decide_true, decide_false, decide_eq_true_eq,
           Bool.false_eq_true, ne_eq]
         store_path)
    · simp only [h2, if_false, if_true, Bool.false_eq_true, not_false_eq_true, not_true_eq_false, ne_eq]
      try dsimp only
      try simp only [Bool.false_eq_true, if_false, if_true, not_true_eq_false, not_false_eq_true, ne_eq]
      store_path
  · first
    | rfl
    | (unfold Gen.hashBinary CacheSpec.hashBinary
       generalize osOpen binary w = o
       obtain ⟨⟨f, e1⟩, w1⟩ := o
       dsimp only
       nilcase e1 as h1
       subst h1
       generalize ioCopy _ _ _ = c
       obtain ⟨⟨n, e2⟩, h, w2⟩ := c
       dsimp only
       by_cases h2 : e2 = .nil <;> simp [h2])

/-- the translator rendered every statement of both functions (nothing was left to the oracle `U`) -/
theorem skeleton_complete : Gen.cacheNotes = [] := by decide

/-- the main result, about the regenerated rendering of the source -/
theorem second_run_source (U : Cache.Unsupported) (L : Str → Str) (dump : Str) (hs : 47 ∈ dump)
    (fs₀ : FS) (h₀ : Honest L dump fs₀)
    (binary₁ hash₁ : Str) (env₁ : Env) (h₁ : RunOK L dump hash₁ env₁)
    (binary₂ hash₂ : Str) (env₂ : Env) (h₂ : RunOK L dump hash₂ env₂) (hn : env₂.crashAt = none) :
    let fs₁ := (Gen.doObjdump U binary₁ hash₁ (World.start fs₀ env₁)).2.fs
    let r₂ := Gen.doObjdump U binary₂ hash₂ (World.start fs₁ env₂)
    r₂.1.2 ≠ .nil ∨ (r₂.1.1 = dump ∧ r₂.2.fs dump = some (complete L hash₂)) := by
  simp only [(tie U _ _ _).1]
  exact second_run_full_or_error L dump hs fs₀ h₀ binary₁ hash₁ env₁ h₁ binary₂ hash₂ env₂ h₂ hn

/-! ### `hashBinary` hands over a hash or the empty string -/

theorem hexDigit_hex (n : Nat) (h : n < 16) : isHex (hexDigit n) := by
  unfold isHex hexDigit; split <;> omega

theorem hexEncode_spec (l : Str) : (hexEncode l).length = 2 * l.length ∧ ∀ b ∈ hexEncode l, isHex b := by
  induction l with
  | nil => simp [hexEncode]
  | cons a t ih =>
    refine ⟨by simp [hexEncode, ih.1]; omega, fun b hb => ?_⟩
    simp only [hexEncode, List.mem_cons] at hb
    rcases hb with hb | hb | hb
    · rw [hb]; exact hexDigit_hex _ (Nat.mod_lt _ (by decide))
    · rw [hb]; exact hexDigit_hex _ (Nat.mod_lt _ (by decide))
    · exact ih.2 b hb

/-- Whatever happens while hashing, `doObjdump` is given 64 hex digits or `""` (the latter when
    reading the binary fails: `hashBinary` returns `"", nil`, the error is swallowed — the next
    theorem shows that this never produces a cache hit). -/
theorem hashBinary_hands_over_hash_or_empty (hsha : ∀ d, (sha256 d).length = 32) (binary : Str) (w : World) :
    HashOK (CacheSpec.hashBinary binary w).1.1 := by
  unfold CacheSpec.hashBinary
  simp only []
  split
  · exact .inr rfl
  · split
    · exact .inr rfl
    · left
      simp only
      have := hexEncode_spec (hashSum (ioCopy sha256New (newReader (osOpen binary w).1.1) (osOpen binary w).2).2.1)
      exact ⟨by rw [this.1, hashSum, hsha], this.2⟩

/-- with the empty hash a run never reports a cache hit: it always goes through `store` -/
theorem empty_hash_never_hits (dump : Str) (w : World) : (lookup dump [] w).1 = false := by
  cases h : (lookup dump [] w).1 with
  | false => rfl
  | true =>
    obtain ⟨c, _, h2, h3⟩ := lookup_hit dump [] w h
    have : (c.take 64).length = 64 := by rw [List.length_take]; omega
    rw [h2] at this; simp at this

/-! ### the pinned protocol does not have the property -/

def pinnedRun (binary hash : Str) (fs : FS) (env : Env) : (Str × GoErr) × World :=
  pinnedDoObjdump binary hash (World.start fs env)

def demoHash : Str := List.replicate 64 48
def demoL : Str → Str := fun _ => [77, 79, 86, 10, 83, 89, 83, 10]
def demoEnv : Env := { binary := bytes "/bin/x", dump := bytes "/h/.seccomp-profiler/x-0123456789", listing := demoL demoHash }

theorem demo_ok : 47 ∈ demoEnv.dump ∧ IsHash demoHash ∧ RunOK demoL demoEnv.dump demoHash demoEnv := by
  refine ⟨by decide, by decide, rfl, rfl, .inl (by decide)⟩

/-- **Refutation on the pinned protocol** (header written first, listing streamed into the final
    path).  Cold cache; run₁ is killed while the disassembler is printing, at a moment when the
    writer had pushed the 65-byte header line to the file; run₂ is a perfectly normal run with a
    working disassembler.  Run₂ reports success and names a file that is a *strict prefix* of the
    complete one (the header without the listing). -/
theorem pinned_protocol_unsound :
    ∃ (env₁ env₂ : Env), RunOK demoL demoEnv.dump demoHash env₁ ∧ RunOK demoL demoEnv.dump demoHash env₂ ∧
      env₂.crashAt = none ∧ env₂.objdump = .ok ∧ (∀ i, env₂.fault i = false) ∧
      let fs₁ := (pinnedRun demoEnv.binary demoHash (fun _ => none) env₁).2.fs
      let r₂ := pinnedRun demoEnv.binary demoHash fs₁ env₂
      r₂.1.2 = .nil ∧ ∃ c, r₂.2.fs r₂.1.1 = some c ∧ c ≠ complete demoL demoHash ∧ c <+: complete demoL demoHash := by
  refine ⟨{ demoEnv with crashAt := some 5, early := fun i => if i = 4 then 65 else 0 }, demoEnv,
    ⟨rfl, rfl, .inl (by decide)⟩, demo_ok.2.2, rfl, rfl, fun _ => rfl, ?_⟩
  refine ⟨by decide +kernel, demoHash ++ [10], by decide +kernel, by decide +kernel, ?_⟩
  exact ⟨demoL demoHash, by decide +kernel⟩

/-- the same with a disassembler that exits non-zero after printing part of the listing, and no crash
    at all: the pinned code flushed the partial output on its error path -/
theorem pinned_protocol_unsound_failing_tool :
    ∃ (env₁ : Env), RunOK demoL demoEnv.dump demoHash env₁ ∧ env₁.crashAt = none ∧
      let fs₁ := (pinnedRun demoEnv.binary demoHash (fun _ => none) env₁).2.fs
      let r₂ := pinnedRun demoEnv.binary demoHash fs₁ demoEnv
      r₂.1.2 = .nil ∧ ∃ c, r₂.2.fs r₂.1.1 = some c ∧ c ≠ complete demoL demoHash ∧ c <+: complete demoL demoHash := by
  refine ⟨{ demoEnv with objdump := .fails [77, 79, 86, 10] }, ⟨rfl, rfl, .inl (by decide)⟩, rfl, ?_⟩
  refine ⟨by decide +kernel, demoHash ++ [10, 77, 79, 86, 10], by decide +kernel, by decide +kernel, ?_⟩
  exact ⟨[83, 89, 83, 10], by decide +kernel⟩

/-! ### non-vacuity: the same two histories on the repaired protocol -/

/-- killed at the same moment: the repaired run₂ does not find a cache entry, disassembles again and
    returns the complete file -/
theorem repaired_after_crash_example :
    let env₁ : Env := { demoEnv with crashAt := some 5, early := fun i => if i = 4 then 65 else 0 }
    let fs₁ := (run demoEnv.binary demoHash (fun _ => none) env₁).2.fs
    let r₂ := run demoEnv.binary demoHash fs₁ { demoEnv with tmpSuffix := [49] }
    fs₁ demoEnv.dump = none ∧ r₂.1 = (demoEnv.dump, .nil) ∧ r₂.2.fs demoEnv.dump = some (complete demoL demoHash) ∧
    r₂.2.log = [bytes "objdump written to" ++ [32] ++ demoEnv.dump] := by
  decide +kernel

/-- a complete run₁ followed by run₂: a cache hit, and the file is the complete one -/
theorem repaired_hit_example :
    let fs₁ := (run demoEnv.binary demoHash (fun _ => none) demoEnv).2.fs
    let r₂ := run demoEnv.binary demoHash fs₁ demoEnv
    r₂.1 = (demoEnv.dump, .nil) ∧ r₂.2.fs demoEnv.dump = some (complete demoL demoHash) ∧
    r₂.2.log = [bytes "Using cached objdump."] := by
  decide +kernel

/-- a failing disassembler: run₁ reports an error and leaves no cache file (and no temporary file) -/
theorem repaired_failing_tool_example :
    let r₁ := run demoEnv.binary demoHash (fun _ => none) { demoEnv with objdump := .fails [77, 79, 86, 10] }
    r₁.1.2 ≠ .nil ∧ r₁.2.fs demoEnv.dump = none ∧
    r₁.2.fs (demoEnv.dump ++ bytes ".tmp") = none := by
  decide +kernel

end C17
