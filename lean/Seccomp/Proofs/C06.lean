import Seccomp.Proofs.Lemmas.Closed
import Seccomp.Proofs.Lemmas.NoUseless
import Seccomp.Proofs.Lemmas.Rename
import Seccomp.Model.Lower
/-!
# C06 — the label/jump builder preserves jump targets at any distance

Property theorems only.  `assemble` is the model of `Program.Assemble` (assembler.go, after
fix F3), `runT` the label-level meaning of a builder call sequence, `run` the meaning of the
resolved instruction list.  The builder stream of the correspondence check compares
`assemble` with the real `Program.Assemble` output for output.
-/

namespace C06

variable {L : Type} [DecidableEq L]

/-- A label program as the *public* builder can produce it: `NewLabel/SetLabel/JmpIf/JmpIfTrue/
    Ret/LdHi/LdLo` never append a raw unconditional jump. -/
def Public (p : List (Tok L)) : Prop := ∀ t ∈ p, ∀ n, t ≠ .ins (.ja n)

theorem jaOk_of_public : ∀ (p : List (Tok L)), Public p → JaOkT p
  | [], _ => trivial
  | t :: rest, h => by
    have ih := jaOk_of_public rest (fun t ht => h t (List.mem_cons_of_mem _ ht))
    cases t with
    | lab l => exact ih
    | ins i =>
      cases i with
      | ja n => exact absurd rfl (h _ List.mem_cons_self n)
      | ld off => exact ih
      | ret k => exact ih
      | jif c k tl fl => exact ih

/-- **Soundness, any distance.**  Whenever `Assemble` succeeds, the instruction list behaves on every
    input (`w` = the words of the record, `a` = accumulator on entry) exactly like the label program:
    same return value, same fall-through, however far the labels are and whatever bridges were
    inserted.  No well-formedness hypothesis: duplicate placements mean "nearest ahead" on both sides. -/
theorem assemble_sound (p : List (Tok L)) (out : List Instr) (hp : Public p)
    (h : assemble p = .ok out) (w : Nat → Word) (a : Word) : run w out a = runT w p a :=
  _root_.assemble_sound p out (jaOk_of_public p hp) h w a

/-- The same for programs that contain raw `ja n` (only the policy compiler appends those), as long as
    a raw jump skips jump-free code. -/
theorem assemble_sound_raw (p : List (Tok L)) (out : List Instr) (hja : JaOkT p)
    (h : assemble p = .ok out) (w : Nat → Word) (a : Word) : run w out a = runT w p a :=
  _root_.assemble_sound p out hja h w a

/-- **Every emitted conditional jump fits the 8-bit skip fields** (so the `uint8` conversions in the
    Go code never truncate), whatever the distances in the label program were. -/
theorem assemble_skips_fit (p : List (Tok L)) (out : List Instr) (h : assemble p = .ok out) :
    ∀ i ∈ out, ∀ c k jt jf, i = .jif c k jt jf → jt ≤ 255 ∧ jf ≤ 255 := by
  intro i hi c k jt jf he
  have := List.all_eq_true.1 (_root_.assemble_skips_fit p out h) i hi
  subst he
  simpa [fits] using this

/-- **Completeness.**  On a program with forward jumps only (every jump label is placed ahead of the
    jump and in front of an instruction) `Assemble` either succeeds or reports a useless jump — it
    never reports a backward jump, whatever the distances are. -/
theorem assemble_complete (p : List (Tok L)) (hwf : WFT p) :
    (∃ out, assemble p = .ok out) ∨ assemble p = .error .useless := by
  rcases asm_complete p hwf with ⟨s, hs, _⟩ | he
  · exact .inl ⟨s.out, by simp [assemble, hs, Except.map]⟩
  · exact .inr (by simp [assemble, he, Except.map])

/-- **Completeness, strong form.**  If in addition every conditional jump has two *different* labels that
    are not both placed directly behind it, `Assemble` succeeds — whatever the distances, however many
    bridges are needed.  (A jump whose two labels coincide, or both mark the very next instruction, is
    what the resolver calls a "useless jump".) -/
theorem assemble_total (p : List (Tok L)) (hwf : WFT p) (hj : JifOk p) : ∃ out, assemble p = .ok out :=
  _root_.assemble_total p hwf hj

/-- What `Assemble` emits is closed: every jump lands inside the list or exactly at its end, so it can
    be followed by more code (the next group) without changing its meaning. -/
theorem assemble_closed (p : List (Tok L)) (out : List Instr) (hja : JaFit p)
    (h : assemble p = .ok out) : InBounds out :=
  assemble_inBounds p out hja h

/-! ### non-vacuity: both branches more than 255 instructions away, targets are returns / loads -/

def farProg : List (Tok Nat) :=
  [.ins (.ld 0), .ins (.jif .eq 1 10 20)] ++ (List.replicate 300 (.ins (.ld 4))) ++
  [.lab 20, .ins (.ret 222), .lab 10, .ins (.ret 111)]

theorem farProg_public : Public farProg := by
  intro t ht n
  simp only [farProg, List.cons_append, List.nil_append, List.mem_cons, List.mem_append,
    List.mem_replicate, List.not_mem_nil, or_false] at ht
  rcases ht with h | h | ⟨_, h⟩ | h | h | h | h <;> subst h <;> simp

/-- the resolver accepts it (kernel evaluation), so `assemble_sound` applies to a real bridge case -/
theorem farProg_assembles : (assemble farProg).toOption.isSome = true := by decide +kernel

/-- distance exactly 255 needs no bridge, 256 does: the emitted program grows by one instruction -/
def distProg (d : Nat) : List (Tok Nat) :=
  [.ins (.jif .eq 1 7 8), .lab 8] ++ (List.replicate d (.ins (.ld 4))) ++ [.lab 7, .ins (.ld 0), .ins (.ret 5)]

theorem dist255_no_bridge : ((assemble (distProg 255)).toOption.map List.length) = some 258 := by decide +kernel
theorem dist256_bridge : ((assemble (distProg 256)).toOption.map List.length) = some 260 := by decide +kernel

/-! ## Label names are immaterial

The Go builder numbers its labels (`NewLabel` counts up); the model of the policy compiler uses structured
labels.  Both are the same program up to a renaming that keeps distinct labels distinct, and neither the
resolver nor the label-level meaning can see such a renaming. -/

/-- **The resolver cannot see label names**: the assembled instruction list (or the error) is the same for
    every naming of the labels under which the labels the program mentions stay distinct. -/
theorem label_names_irrelevant {M : Type} [DecidableEq M] (f : L → M) (p : List (Tok L))
    (hf : InjOn f (mentioned p)) : assemble (renameToks f p) = assemble p :=
  assemble_rename f p hf

/-- … and neither can the label-level meaning, on any input. -/
theorem label_meaning_names_irrelevant {M : Type} [DecidableEq M] (f : L → M) (p : List (Tok L))
    (hf : InjOn f (mentioned p)) (w : Nat → Word) (a : Word) : runT w (renameToks f p) a = runT w p a :=
  runT_rename w f (mentioned p) hf p.length p (Nat.le_refl _) (fun _ h => h) a

/-- For the policy compiler: whatever integers `NewLabel` hands out for the labels of a group program — as long
    as different labels get different integers — `Program.Assemble` yields the program the model computes from
    its structured labels. -/
theorem group_program_any_numbering (ly : Layout) (ents : List Entry) (r : Word) (num : PL → Nat)
    (hnum : InjOn num (mentioned (groupToks ly ents r))) :
    assemble (renameToks num (groupToks ly ents r)) = assemble (groupToks ly ents r) :=
  assemble_rename num _ hnum

/-- non-vacuity: a two-label program under a renaming that is injective on its labels only (`0, 1 ↦ 10, 11`,
    everything else collapses), and one that identifies its two labels — which does change the result -/
def renProg : List (Tok Nat) := [.ins (.jif .eq 1#32 0 1), .lab 1, .ins (.ret 5#32), .lab 0, .ins (.ret 7#32)]

theorem rename_example :
    (assemble (renameToks (fun l => if l ≤ 1 then l + 10 else 0) renProg)).toOption = (assemble renProg).toOption ∧
    (assemble renProg).toOption = some [.jif .eq 1#32 1 0, .ret 5#32, .ret 7#32] ∧
    (assemble (renameToks (fun _ => 3) renProg)).toOption ≠ (assemble renProg).toOption := by decide +kernel

/-! non-vacuity of `group_program_any_numbering`: an explicit numbering of the structured labels (Cantor pairing, one
    residue class per constructor) that keeps the labels of a concrete group program — one unconditional entry, one
    conditional entry with a two-condition list — distinct -/

def pairN (a b : Nat) : Nat := (a + b) * (a + b + 1) / 2 + b

def plCode : PL → Nat
  | .action => 0
  | .nextSys e => 6 * e + 1
  | .afterNr e => 6 * e + 2
  | .noMatch e l => 6 * pairN e l + 3
  | .nextArg e l c => 6 * pairN (pairN e l) c + 4
  | .nextIns e l c j => 6 * pairN (pairN (pairN e l) c) j + 5

instance {M : Type} [DecidableEq M] (f : PL → M) (S : List PL) : Decidable (InjOn f S) := by
  unfold InjOn; infer_instance

def numProg : List (Tok PL) :=
  groupToks { hiOff := fun i => 16 + 8 * i + 4, loOff := fun i => 16 + 8 * i }
    [.uncond 1#32, .cond 2#32 [[⟨0, .eq, 5#64⟩, ⟨1, .gt, 7#64⟩]]] 0x7fff0000#32

theorem numbering_example :
    InjOn plCode (mentioned numProg) ∧ 10 < (mentioned numProg).length ∧
    (assemble (renameToks plCode numProg)).toOption = (assemble numProg).toOption := by decide +kernel

end C06
