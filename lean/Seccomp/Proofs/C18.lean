import Seccomp.Proofs.Lemmas.ProfileLemmas
import Seccomp.Proofs.C01
/-!
# C18 — profiles are (found − blacklisted) + allowed, and load back

`Profile.profileNames` is the model of what `cmd/seccomp-profiler main()` does between
`disasm.ExtractSyscalls` and the emitters (tied to the built profiler binary by the `profile`
runs of `vprof`: exact equality of the emitted name lists in both output formats, for all flag
spellings).  `found` ranges over all lists of `(number, name)` sites, `blacklist`/`allow` over all
lists of strings, `tableHas` over all tables.
-/

namespace C18
open Profile

/-- the name of a found syscall is a function of its number (`C16.reported_in_table`: both come from
    one lookup `SyscallNumbers[num]`) -/
def NameOfNumber (found : List (Nat × String)) : Prop :=
  ∀ x ∈ found, ∀ y ∈ found, x.1 = y.1 → x.2 = y.2

/-- … and the number is a function of the name (the table is injective, C12) -/
def NumberOfName (found : List (Nat × String)) : Prop :=
  ∀ x ∈ found, ∀ y ∈ found, x.2 = y.2 → x.1 = y.1

/-- sites reported through a table `number → name` have `NameOfNumber` -/
theorem reported_in_table_gives_function (tbl : Nat → Option String) (found : List (Nat × String))
    (h : ∀ x ∈ found, tbl x.1 = some x.2) : NameOfNumber found := by
  intro x hx y hy hxy
  have h1 := h x hx
  have h2 := h y hy
  rw [hxy, h2] at h1
  exact (Option.some.inj h1).symm

/-- **Deduplication by number: which site wins does not matter.**  The names in the map after
    `m[s.Num] = s` over all sites are exactly the names of the sites. -/
theorem last_wins_is_irrelevant (found : List (Nat × String)) (hfun : NameOfNumber found) (s : String) :
    s ∈ (dedupByNum found).map (·.2) ↔ ∃ n, (n, s) ∈ found :=
  dedup_names_mem found hfun s

/-- **Set algebra.**  A name is emitted iff it was found and is not blacklisted, or it is on the
    allow list and the architecture's table knows it:  names = (found ∖ B) ∪ (W ∩ table).
    (No disjointness is needed for this form: an allow-list name is always included, as the flag's
    help text says; for disjoint `B`, `W` it is also ((found ∪ (W ∩ table)) ∖ B).) -/
theorem profile_set_algebra (found : List (Nat × String)) (blacklist allow : List String)
    (tableHas : String → Bool) (hfun : NameOfNumber found) (s : String) :
    s ∈ profileNames found blacklist allow tableHas ↔
      ((∃ n, (n, s) ∈ found) ∧ s ∉ blacklist) ∨ (s ∈ allow ∧ tableHas s = true) := by
  unfold profileNames
  simp only []
  rw [sortStrings_mem]
  have hb : s ∈ (if blacklist.isEmpty = true then (dedupByNum found).map (·.2)
      else filterBlacklist blacklist ((dedupByNum found).map (·.2))) ↔ (∃ n, (n, s) ∈ found) ∧ s ∉ blacklist := by
    split
    · rename_i he
      rw [List.isEmpty_iff] at he
      rw [dedup_names_mem found hfun, he]; simp
    · rw [filterBlacklist_mem, dedup_names_mem found hfun]
  split
  · rename_i he
    rw [List.isEmpty_iff] at he
    rw [hb, he]; simp
  · rw [addAllow_mem, hb]

/-- the same for disjoint flag sets, in the other bracketing: ((found ∪ (W ∩ table)) ∖ B) -/
theorem profile_set_algebra_disjoint (found : List (Nat × String)) (blacklist allow : List String)
    (tableHas : String → Bool) (hfun : NameOfNumber found) (hd : ∀ s ∈ allow, s ∉ blacklist) (s : String) :
    s ∈ profileNames found blacklist allow tableHas ↔
      ((∃ n, (n, s) ∈ found) ∨ (s ∈ allow ∧ tableHas s = true)) ∧ s ∉ blacklist := by
  rw [profile_set_algebra found blacklist allow tableHas hfun]
  constructor
  · rintro (⟨h1, h2⟩ | ⟨h1, h2⟩)
    · exact ⟨.inl h1, h2⟩
    · exact ⟨.inr ⟨h1, h2⟩, hd s h1⟩
  · rintro ⟨h1 | h1, h2⟩
    · exact .inl ⟨h1, h2⟩
    · exact .inr h1

/-- **Sorted, free of duplicates**: the emitted list is strictly increasing. -/
theorem profile_sorted_nodup (found : List (Nat × String)) (blacklist allow : List String)
    (tableHas : String → Bool) (hinj : NumberOfName found) :
    (profileNames found blacklist allow tableHas).Pairwise (· < ·) := by
  unfold profileNames
  simp only []
  apply strict_of_sorted_nodup _ (sortStrings_sorted _)
  apply sortStrings_nodup
  have h1 : (if blacklist.isEmpty = true then (dedupByNum found).map (·.2)
      else filterBlacklist blacklist ((dedupByNum found).map (·.2))).Nodup := by
    split
    · exact dedup_names_nodup found hinj
    · exact filterBlacklist_nodup _ _ (dedup_names_nodup found hinj)
  split
  · exact h1
  · exact addAllow_nodup _ _ _

/-- hence it is *the* sorted duplicate-free list of that set: any strictly increasing list with the
    same members — whatever order Go's maps were iterated in — is equal to it -/
theorem profile_is_the_sorted_set (found : List (Nat × String)) (blacklist allow : List String)
    (tableHas : String → Bool) (hfun : NameOfNumber found) (hinj : NumberOfName found)
    (l : List String) (hs : l.Pairwise (· < ·))
    (hm : ∀ s, s ∈ l ↔ ((∃ n, (n, s) ∈ found) ∧ s ∉ blacklist) ∨ (s ∈ allow ∧ tableHas s = true)) :
    l = profileNames found blacklist allow tableHas :=
  sorted_unique _ _ hs (profile_sorted_nodup found blacklist allow tableHas hinj)
    (fun s => by rw [hm, profile_set_algebra found blacklist allow tableHas hfun])

/-- **Only names valid for the architecture**: if the found names are table names, so is every
    emitted name (allow-list names the table does not know are dropped). -/
theorem profile_subset_table (found : List (Nat × String)) (blacklist allow : List String)
    (tableHas : String → Bool) (hfun : NameOfNumber found) (ht : ∀ x ∈ found, tableHas x.2 = true) :
    ∀ s ∈ profileNames found blacklist allow tableHas, tableHas s = true := by
  intro s hs
  rw [profile_set_algebra found blacklist allow tableHas hfun] at hs
  rcases hs with ⟨⟨n, hn⟩, _⟩ | ⟨_, h⟩
  · exact ht (n, s) hn
  · exact h

/-! ## the emitted profile as a policy -/

/-- what `writeProfileConfig` / the code template emit -/
def profilePolicy (names : List String) : Policy :=
  { default := actErrno, groups := [{ names := names, withConds := [], action := actAllow }] }

/-- **The profile compiles to an allow-list.**  Whenever the policy is accepted, the filter answers
    `allow` exactly for the events whose number is the number of one of the profile's names, and
    `errno|EPERM` for every other event (own architecture, no x32 bit) — for the empty profile: `errno`
    for everything. -/
theorem profile_compiles_to_allowlist (A : ArchInfo) (e : Endian) (names : List String) (prog : List Instr)
    (h : assemblePolicy (some A) (Layout.ofEndian e) (profilePolicy names) = .ok prog)
    (ev : Event) (hn : C01.Native A ev) (a0 : Word) :
    run (words e ev) prog a0 =
      .ret (if names.any (fun n => A.number n == some ev.nr) then actAllow else 0x00050001#32) := by
  rw [C01.first_group_decides A e _ prog h ev hn a0]
  simp only [profilePolicy, List.find?_cons, List.find?_nil]
  rw [C01.names_only_matches A _ rfl]
  cases names.any (fun n => A.number n == some ev.nr)
  · simp only [Bool.false_eq_true, if_false]; rfl
  · simp only [if_true]; rfl

theorem listed_iff (A : ArchInfo) (names : List String) (nr : Word) :
    names.any (fun n => A.number n == some nr) = true ↔ ∃ s ∈ names, A.number s = some nr := by
  rw [List.any_eq_true]
  constructor
  · rintro ⟨s, hs, h⟩; exact ⟨s, hs, by simpa using h⟩
  · rintro ⟨s, hs, h⟩; exact ⟨s, hs, by simpa using h⟩

/-- the empty profile denies everything -/
theorem empty_profile_denies_all (A : ArchInfo) (e : Endian) (prog : List Instr)
    (h : assemblePolicy (some A) (Layout.ofEndian e) (profilePolicy []) = .ok prog)
    (ev : Event) (hn : C01.Native A ev) (a0 : Word) :
    run (words e ev) prog a0 = .ret 0x00050001#32 := by
  rw [profile_compiles_to_allowlist A e [] prog h ev hn a0]; rfl

/-! ## flags -/

/-- repeated flags append -/
theorem repeated_flags_append (vs ws : List String) : parseFlag (vs ++ ws) = parseFlag vs ++ parseFlag ws := by
  unfold parseFlag
  rw [List.foldl_append]
  generalize List.foldl flagSet [] vs = acc
  induction ws generalizing acc with
  | nil => simp
  | cons w t ih =>
    rw [List.foldl_cons, List.foldl_cons, ih, ih (flagSet [] w)]
    simp [flagSet, List.append_assoc]

/-- a field is never empty and never contains a separator -/
theorem fields_clean (sep : Char → Bool) : ∀ (cs cur : List Char), (∀ c ∈ cur, sep c = false) →
    ∀ f ∈ fieldsAux sep cs cur, f ≠ [] ∧ ∀ c ∈ f, sep c = false
  | [], cur, hc, f, hf => by
    unfold fieldsAux at hf
    split at hf
    · simp at hf
    · rename_i hne
      simp at hf
      subst hf
      exact ⟨by simpa using hne, fun c h => hc c (by simpa using h)⟩
  | c :: rest, cur, hc, f, hf => by
    unfold fieldsAux at hf
    split at hf
    · split at hf
      · exact fields_clean sep rest [] (by simp) f hf
      · rename_i hne
        rcases List.mem_cons.1 hf with rfl | hf
        · exact ⟨by simpa using hne, fun c h => hc c (by simpa using h)⟩
        · exact fields_clean sep rest [] (by simp) f hf
    · rename_i hs
      exact fields_clean sep rest (c :: cur) (fun x hx => by
        rcases List.mem_cons.1 hx with rfl | hx
        · simpa using hs
        · exact hc x hx) f hf

/-- all spellings of "a and b" give the same list -/
theorem flag_spellings :
    parseFlag ["a b"] = ["a", "b"] ∧ parseFlag ["a,b"] = ["a", "b"] ∧ parseFlag ["a;b"] = ["a", "b"] ∧
    parseFlag ["a", "b"] = ["a", "b"] ∧ parseFlag [" a ,; b\t"] = ["a", "b"] ∧ parseFlag ["", ",;"] = [] := by
  decide +kernel

/-! ## non-vacuity -/

def demoFound : List (Nat × String) := [(0, "read"), (1, "write"), (0, "read"), (3, "close"), (2, "open")]
def demoTable (s : String) : Bool := s == "read" || s == "write" || s == "open" || s == "close"

theorem demo_profile :
    profileNames demoFound ["write"] ["open", "bogus", "close"] demoTable = ["close", "open", "read"] ∧
    profileNames demoFound [] [] demoTable = ["close", "open", "read", "write"] ∧
    profileNames [] ["x"] [] demoTable = [] := by
  decide +kernel

theorem demo_profile_accepted :
    (assemblePolicy (some C01.tinyArch) (Layout.ofEndian .little) (profilePolicy ["close", "open", "read"])).toOption.isSome = true ∧
    (assemblePolicy (some C01.tinyArch) (Layout.ofEndian .little) (profilePolicy [])).toOption.isSome = true := by
  decide +kernel

end C18
