import Seccomp.Proofs.Lemmas.Disasm
/-!
# C16 — syscall extraction is total, function-scoped and never silently truncated

Statement (properties.jsonl): *For any disassembly text, syscall extraction terminates without
panicking and returns an error, not a partial result, if the text cannot be read to the end.  A
syscall number is attributed only from instructions of the same function as the syscall site,
every reported syscall exists in the architecture's table under the reported name, and appending
further functions to a disassembly never removes syscalls found before.*

The theorems are about `Disasm.parse p tbl content fail` (`Model/Disasm.lean`): the model of
`disasm.ExtractSyscalls` on a file with the bytes `content`, where `fail = some k` means that the
reader reports an I/O error after `k` lines.  They hold for **every** table `tbl`, every byte string
and every failure point; `p` ranges over the parsers whose instruction patterns contain a visible
ASCII character (`Parser.Solid`; both parsers of the package are, `x86_64Parser_solid`,
`i386Parser_solid`).  Termination is by construction (all model functions are structurally
recursive, total Lean functions).  The model is tied to the Go code by the `disasm` stream.
-/

namespace C16
open Disasm

/-! ## never panics -/

/-- **Extraction never panics.**  For every text, table and failure point the outcome of `parse`
    is a list of syscalls or an error.  `panic` is what the model's slicing and indexing primitives
    (`sliceFrom`, `index`) produce where the Go run time would panic, so this is a statement about
    the guards of `line[5:]`, `fields[0]`, `fields[3:]` and `instructions[len-2]`. -/
theorem parse_total (p : Parser) (hp : p.Solid) (tbl : Nat → Option String) (content : Bytes)
    (fail : Option Nat) : parse p tbl content fail ≠ .panic := by
  unfold parse
  cases fail with
  | none =>
    dsimp only
    obtain ⟨st, hst⟩ := run_some hp tbl (scan (rawLines content)).1 St.init
    rw [hst]
    dsimp only
    split <;> simp
  | some k =>
    dsimp only
    obtain ⟨st, hst⟩ := run_some hp tbl (scan ((rawLines content).take k)).1 St.init
    rw [hst]
    dsimp only
    split <;> simp

/-- `parse_total` for the two parsers of the package -/
theorem parse_total_x86_64 (tbl : Nat → Option String) (content : Bytes) (fail : Option Nat) :
    parse x86_64Parser tbl content fail ≠ .panic := parse_total _ x86_64Parser_solid tbl content fail

theorem parse_total_i386 (tbl : Nat → Option String) (content : Bytes) (fail : Option Nat) :
    parse i386Parser tbl content fail ≠ .panic := parse_total _ i386Parser_solid tbl content fail

/-- Non-vacuity: `panic` is a possible outcome of the primitives — the two slices of the pinned
    tree (F10) fail on a bare marker line and on a one-field `SYSCALL` line — -/
example : sliceFrom 5 (ofStr "TEXT") = none ∧ sliceFrom 3 (fields (ofStr "SYSCALL")) = none ∧
    index (fields (ofStr " \t")) 0 = none := by decide

def tbl0 : Nat → Option String := fun n =>
  if n = 59 then some "execve" else if n = 1 then some "write" else if n = 0 then some "read" else none

/-- — and the guarded parser gets through exactly those lines: the bare marker, the one-field
    `SYSCALL` line (reported: it follows `XORL AX, AX`), a `SYSCALL` line without number (warning). -/
example : parse x86_64Parser tbl0 (ofStr "TEXT\nXORL AX, AX\nSYSCALL\nSYSCALL\n") none =
    .ok [{ num := 0, name := "read", caller := [], function := [], location := ofStr "SYSCALL",
           assembly := ofStr "XORL AX, AX" }] := by decide +kernel

/-! ## an unreadable text gives an error, never a partial result -/

/-- the text cannot be read to the end: the reader fails after some number of lines, or a line
    (bytes between two newlines, or after the last one) has 65536 bytes or more, which the
    scanner refuses (`bufio.ErrTooLong`) -/
def Unreadable (content : Bytes) (fail : Option Nat) : Prop :=
  fail.isSome = true ∨ ∃ l ∈ rawLines content, l.length ≥ maxToken

/-- **A read failure at any point gives an error, never a partial `ok`** — whatever was found in
    the lines before the failure (or before the over-long line) is not returned. -/
theorem parse_error_on_read_failure (p : Parser) (hp : p.Solid) (tbl : Nat → Option String)
    (content : Bytes) (fail : Option Nat) (h : Unreadable content fail) :
    parse p tbl content fail = .error := by
  have htot := parse_total p hp tbl content fail
  unfold parse at htot ⊢
  cases fail with
  | some k =>
    dsimp only at htot ⊢
    split
    · rename_i hrun
      rw [hrun] at htot
      exact absurd rfl htot
    · simp
  | none =>
    dsimp only at htot ⊢
    split
    · rename_i hrun
      rw [hrun] at htot
      exact absurd rfl htot
    · rcases h with h | ⟨l, hl, hlen⟩
      · simp at h
      · have : (scan (rawLines content)).2 = true := (scan_tooLong_iff _).mpr ⟨l, hl, hlen⟩
        simp [this]

/-- Conversely an error is reported only for an unreadable text (no spurious errors). -/
theorem parse_error_only_on_read_failure (p : Parser) (tbl : Nat → Option String) (content : Bytes)
    (fail : Option Nat) (h : parse p tbl content fail = .error) : Unreadable content fail := by
  cases fail with
  | some k => exact Or.inl rfl
  | none =>
    unfold parse at h
    dsimp only at h
    split at h
    · cases h
    · split at h
      · rename_i he
        have he' : (scan (rawLines content)).2 = true := by simpa using he
        exact Or.inr ((scan_tooLong_iff _).mp he')
      · cases h

/-- The same at the level of bytes: a run of at least 65536 bytes without a newline anywhere in
    the file makes extraction fail, whatever precedes and follows it. -/
theorem parse_error_on_long_run (p : Parser) (hp : p.Solid) (tbl : Nat → Option String)
    (a l b : Bytes) (hl : 10 ∉ l) (hlen : l.length ≥ 65536) :
    parse p tbl (a ++ l ++ b) none = .error := by
  apply parse_error_on_read_failure p hp
  have hne : l ≠ [] := by intro h; simp [h] at hlen
  obtain ⟨r, hr, hle⟩ := rawLines_long_run a l b hl hne
  exact Or.inr ⟨r, hr, by unfold maxToken; omega⟩

def site0 : Bytes :=
  ofStr "TEXT main.f(SB) /f.go\n  f.go:7\t0x1\t\t48c7\t\tMOVQ $0x3b, 0(SP)\t\n  f.go:8\t0x2\t\te8\t\tCALL syscall.Syscall(SB)\t\n"

def finding0 : Syscall :=
  { num := 59, name := "execve", caller := ofStr "main.f(SB) /f.go", function := ofStr "CALL syscall.Syscall(SB)",
    location := ofStr "f.go:8", assembly := ofStr "MOVQ $0x3b, 0(SP)" }

/-- Non-vacuity: the listing has a finding when it is readable; with a reader that fails after 0,
    1, 3 or 1000 lines the result is an error (F10: the pinned tree returned `nil, nil` for the
    over-long line) -/
example : parse x86_64Parser tbl0 site0 none = .ok [finding0] ∧
    parse x86_64Parser tbl0 site0 (some 0) = .error ∧ parse x86_64Parser tbl0 site0 (some 1) = .error ∧
    parse x86_64Parser tbl0 site0 (some 3) = .error ∧ parse x86_64Parser tbl0 site0 (some 1000) = .error := by
  decide +kernel

/-- Non-vacuity: the listing with a finding, followed by a 70000-byte line, is an error -/
example : parse x86_64Parser tbl0 (site0 ++ List.replicate 70000 120 ++ [10]) none = .error :=
  parse_error_on_long_run _ x86_64Parser_solid _ site0 (List.replicate 70000 120) [10]
    (fun h => absurd (List.eq_of_mem_replicate h) (by decide)) (by rw [List.length_replicate]; omega)

/-! ## every reported syscall is an entry of the table -/

/-- **Every reported `(num, name)` is an entry of the table**: the number is non-negative and
    `SyscallNumbers[num] = name`. -/
theorem reported_in_table (p : Parser) (tbl : Nat → Option String) (content : Bytes) (fail : Option Nat)
    (r : List Syscall) (h : parse p tbl content fail = .ok r) :
    ∀ s ∈ r, ∃ k : Nat, s.num = (k : Int) ∧ tbl k = some s.name := by
  have hf := parse_ok_fail_none h
  subst hf
  obtain ⟨_, st, hst, rfl⟩ := parse_none_ok_iff.mp h
  intro s hs
  exact lookupNum_some (run_table _ St.init st (by simp [St.init]) hst s hs)

/-- Non-vacuity: of three well-formed sites (numbers 1, 2, -1) only the one whose number is in
    the table is reported, under the table's name -/
example : parse x86_64Parser tbl0
    (ofStr "TEXT f\na 1 b8 MOVL $2, AX\na 2 0f05 SYSCALL\nb 1 b8 MOVL $1, AX\nb 2 0f05 SYSCALL\nc 1 b8 MOVL $-1, AX\nc 2 0f05 SYSCALL\n") none =
    .ok [{ num := 1, name := "write", caller := ofStr "f", function := ofStr "SYSCALL", location := ofStr "b",
           assembly := ofStr "MOVL $1, AX" }] := by decide +kernel

/-! ## the number comes from the function of the site -/

/-- **Invariant of the instruction window.**  After any sequence of lines `pre` read so far (any
    prefix of any listing), the window in which `findSyscallNum` will search is a suffix of the
    lines read so far and contains no function marker line: every line of the window comes after
    the last `TEXT` line read so far.  (`findSyscallNum` and `lastInstruction` see nothing but
    the window.) -/
theorem window_in_function (p : Parser) (tbl : Nat → Option String) (pre : List Bytes) (st : St)
    (h : run p tbl St.init pre = some st) :
    ∃ before, pre = before ++ st.window.reverse ∧ ∀ l ∈ st.window, isText l = false := by
  have hi := run_inv pre [] St.init st inv_init h
  obtain ⟨pre', body, hpb, hbody, _, ⟨t, ht⟩⟩ := hi.split
  refine ⟨pre' ++ t, ?_, ?_⟩
  · simp at hpb
    rw [hpb, ← ht]; simp
  · intro l hl
    apply hbody
    rw [← ht]
    simp [hl]

/-- **Every finding is function-scoped** (`Disasm.Scoped`): the listing splits as
    `pre ++ body ++ site :: post` such that `pre` is empty or ends in a `TEXT` line, no line of
    `body ++ [site]` is a `TEXT` line (they are the lines of one function up to the site), the
    reported caller is the name on that `TEXT` line, and the number and the assembly text were
    read off a line of `body ++ [site]` (a match of one of the two regular expressions whose
    operand parses to the number, or the `XORL AX, AX` case). -/
theorem number_from_same_function (p : Parser) (tbl : Nat → Option String) (content : Bytes)
    (fail : Option Nat) (r : List Syscall) (h : parse p tbl content fail = .ok r) :
    ∀ s ∈ r, Scoped (scan (rawLines content)).1 s := by
  have hf := parse_ok_fail_none h
  subst hf
  obtain ⟨_, st, hst, rfl⟩ := parse_none_ok_iff.mp h
  have hi := run_inv _ [] St.init st inv_init hst
  intro s hs
  simpa using hi.found s hs

/-- Non-vacuity: a number loaded in `f` is not used for the call in `g` (no finding, the site
    only gives a warning); without the marker line between them it is. -/
example :
    parse x86_64Parser tbl0 (ofStr "TEXT f\na 1 48 MOVQ $59, 0(SP)\nTEXT g\nb 1 e8 CALL unix.Syscall(SB)\n") none = .ok [] ∧
    parse x86_64Parser tbl0 (ofStr "TEXT f\na 1 48 MOVQ $59, 0(SP)\nb 1 e8 CALL unix.Syscall(SB)\n") none =
      .ok [{ num := 59, name := "execve", caller := ofStr "f", function := ofStr "CALL unix.Syscall(SB)",
             location := ofStr "b", assembly := ofStr "MOVQ $59, 0(SP)" }] := by decide +kernel

/-! ## appending functions never removes findings -/

/-- the text is empty or ends in a newline (its last line is complete) -/
def EndsInNewline (t : Bytes) : Prop := t = [] ∨ ∃ t0, t = t0 ++ [10]

/-- **Prefix monotonicity.**  Let `t` end in a newline and let `t'` be any continuation — in
    particular further complete functions, i.e. lines that start with a `TEXT` line.  If the whole
    text `t ++ t'` is extracted without error, so is `t`, and the findings of `t` are a prefix of
    the findings of the whole: nothing found before is removed, changed or reordered. -/
theorem parse_prefix_monotone (p : Parser) (tbl : Nat → Option String) (t t' : Bytes)
    (ht : EndsInNewline t) (r' : List Syscall) (h : parse p tbl (t ++ t') none = .ok r') :
    ∃ r, parse p tbl t none = .ok r ∧ r <+: r' := by
  rcases ht with rfl | ⟨t0, rfl⟩
  · exact ⟨[], parse_none_ok_iff.mpr ⟨by simp [rawLines, rawLinesAux, scan], St.init,
      by simp [rawLines, rawLinesAux, scan, run], rfl⟩, List.nil_prefix⟩
  · obtain ⟨he, st', hst', rfl⟩ := parse_none_ok_iff.mp h
    rw [rawLines_append_nl, scan_append] at he hst'
    cases hA : (scan (rawLines (t0 ++ [10]))).2 with
    | true => simp [hA] at he
    | false =>
      simp only [hA, Bool.false_eq_true, if_false] at he hst'
      rw [run_append] at hst'
      cases hr : run p tbl St.init (scan (rawLines (t0 ++ [10]))).1 with
      | none => simp [hr] at hst'
      | some st =>
        simp [hr] at hst'
        exact ⟨st.found, parse_none_ok_iff.mpr ⟨hA, st, hr, rfl⟩, run_found_prefix _ st st' hst'⟩

/-- The other direction: what was found in `t` stays found when text is appended, unless the
    appended text cannot be read (then the whole extraction is an error, by
    `parse_error_on_read_failure`, not a shorter result). -/
theorem parse_prefix_monotone_forward (p : Parser) (hp : p.Solid) (tbl : Nat → Option String) (t t' : Bytes)
    (ht : EndsInNewline t) (r : List Syscall) (h : parse p tbl t none = .ok r) :
    parse p tbl (t ++ t') none = .error ∨ ∃ r', parse p tbl (t ++ t') none = .ok r' ∧ r <+: r' := by
  cases hw : parse p tbl (t ++ t') none with
  | panic => exact absurd hw (parse_total p hp tbl _ none)
  | error => exact Or.inl rfl
  | ok r' =>
    obtain ⟨r0, h0, hpre⟩ := parse_prefix_monotone p tbl t t' ht r' hw
    rw [h] at h0
    cases h0
    exact Or.inr ⟨r', rfl, hpre⟩

/-- Non-vacuity: appending a second function (its `TEXT` line first) adds its finding after the
    first one; and the hypothesis on the newline matters — gluing text to an unfinished last line
    can change the earlier finding (here the site line becomes another instruction). -/
example :
    parse x86_64Parser tbl0 site0 none = .ok [finding0] ∧
    parse x86_64Parser tbl0 (site0 ++ ofStr "TEXT g\nb 1 b8 MOVL $1, AX\nb 2 0f05 SYSCALL\n") none =
      .ok [finding0, { num := 1, name := "write", caller := ofStr "g", function := ofStr "SYSCALL",
                       location := ofStr "b", assembly := ofStr "MOVL $1, AX" }] ∧
    parse x86_64Parser tbl0 (ofStr "TEXT f\na 1 b8 MOVL $1, AX\na 2 0f05 SYSCALL") none =
      .ok [{ num := 1, name := "write", caller := ofStr "f", function := ofStr "SYSCALL",
             location := ofStr "a", assembly := ofStr "MOVL $1, AX" }] ∧
    parse x86_64Parser tbl0 (ofStr "TEXT f\na 1 b8 MOVL $1, AX\na 2 0f05 SYSCALL" ++ ofStr "X\n") none =
      .ok [{ num := 1, name := "write", caller := ofStr "f", function := ofStr "SYSCALLX",
             location := ofStr "a", assembly := ofStr "MOVL $1, AX" }] := by decide +kernel

end C16
