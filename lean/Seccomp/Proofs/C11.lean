import Seccomp.Proofs.C09
/-!
# C11 — no_new_privs is set iff requested, before install, on the installing thread

Schedules are the oracle `w.sched` of the world (where the goroutine lands at successive schedule
points; every kernel entry starts with one).  `runtime.LockOSThread` makes schedule points inert.
The theorems are about the regenerated `Gen.loadFilter`; the fact they rest on — the lock is taken
before `prctl` and released only by the deferred unlock after `seccomp` returned — is read off the
source by the translator on every run.
-/

namespace C11

/-- **Before, and on the same thread, under every schedule.**  If NoNewPrivs is requested (and the
    policy assembles), the kernel sees exactly two calls, in this order and both on the thread the
    goroutine was on when `LoadFilter` was entered: `prctl(PR_SET_NO_NEW_PRIVS, 1, 0, 0, 0)`, then
    `seccomp(SET_MODE_FILTER, flags, prog)` — whatever the schedule oracle says. -/
theorem nnp_before_install_same_thread (U : Unsupported) (filter : Filter) (p : Prog)
    (hp : filter.policy = .prog p) (hn : filter.noNewPrivs = true) (w : World) (ha : w.nnpAvailable = true) :
    (Gen.loadFilter U filter w).2.log =
      .seccomp w.cur 1 filter.flag (mkFprog (.prog p)) :: .prctl w.cur 38 1 0 0 0 :: w.log := by
  obtain ⟨msg, _, heq⟩ := gen_loadFilter_prog U filter p hp w (fun hf => by have := hf.2; rw [ha] at this; cases this)
  rw [heq]
  simp only
  rw [atReturn_log, (gen_seccomp_log U _ _ _).1, preInstall_sched_nnp filter w hn, preInstall_cur,
    preInstall_nnp filter w hn ha]
  rfl

/-- **Never installed without the bit.**  If NoNewPrivs is requested and the kernel refuses to set it
    (`prctl` answers EINVAL), `LoadFilter` returns that error and makes no seccomp call: the log grows
    by the `prctl` alone and no thread changes.  Together with the theorem above: whenever NoNewPrivs is
    requested, a seccomp call is only ever made after a successful `prctl` on the same thread. -/
theorem no_install_without_bit (U : Unsupported) (filter : Filter) (p : Prog)
    (hp : filter.policy = .prog p) (hn : filter.noNewPrivs = true) (w : World) (ha : w.nnpAvailable = false) :
    (Gen.loadFilter U filter w).1 ≠ GoErr.nil ∧
    (Gen.loadFilter U filter w).2.log = .prctl w.cur 38 1 0 0 0 :: w.log ∧
    (Gen.loadFilter U filter w).2.thr = w.thr := by
  obtain ⟨h1, h2, h3, _⟩ := C09.nnp_refusal_is_error U filter p hp w hn ha
  refine ⟨fun h => ?_, h3, h2⟩
  rw [h] at h1; simp [GoErr.cls] at h1

/-- the bit is on the installing thread at the moment of the seccomp call (kernel that knows the option) -/
theorem bit_set_at_install (filter : Filter) (w : World) (hn : filter.noNewPrivs = true) (ha : w.nnpAvailable = true) :
    ((preInstall filter w).thr (C09.callThread filter w)).nnp = true := by
  unfold C09.callThread
  rw [preInstall_sched_nnp filter w hn, preInstall_cur, preInstall_nnp filter w hn ha]
  simp

/-- the option and argument words are those of the UAPI -/
theorem prctl_words : PR_SET_NO_NEW_PRIVS = 38 ∧ SECCOMP_SET_MODE_FILTER = 1 := ⟨rfl, rfl⟩

/-- **An unprivileged process can always load a valid filter when it asks for no_new_privs**, under
    every schedule: a kernel that has the seccomp syscall, a valid program (accepted by the verifier,
    1..4096 instructions), known flag bits (thread-sync and a listener are not asked for together), and
    — if thread-sync is requested — no other thread with a chain that is not an ancestor of the
    caller's. -/
theorem unprivileged_can_load (U : Unsupported) (filter : Filter) (p : Prog)
    (hp : filter.policy = .prog p) (hn : filter.noNewPrivs = true) (w : World)
    (havail : w.seccompAvailable = true) (ha : w.nnpAvailable = true)
    (hok : p.ok = true ∧ p.len % 65536 ≠ 0 ∧ p.len % 65536 ≤ BPF_MAXINSNS)
    (hflags : filter.flag &&& knownFlags = filter.flag)
    (hcombo : ¬ (filter.flag &&& FLAG_TSYNC ≠ 0 ∧ filter.flag &&& FLAG_NEW_LISTENER ≠ 0))
    (hsync : filter.flag &&& FLAG_TSYNC ≠ 0 → ∀ t ∈ w.live, t ≠ w.cur →
      (w.thr t).filters.isSuffixOf (w.thr w.cur).filters = true) :
    (Gen.loadFilter U filter w).1 = GoErr.nil := by
  obtain ⟨msg, _, heq⟩ := gen_loadFilter_prog U filter p hp w (fun hf => by have := hf.2; rw [ha] at this; cases this)
  rw [heq]
  simp only
  have hcur : (schedStep (preInstall filter w)).cur = w.cur := by
    rw [preInstall_sched_nnp filter w hn, preInstall_cur]
  have : (Gen.seccomp U 1 filter.flag (mkFprog (.prog p)) (preInstall filter w)).1 = GoErr.nil := by
    simp only [mkFprog]
    apply gen_seccomp_ok (by rw [preInstall_avail]; exact havail) hflags hcombo (by simpa using hok)
    · left
      rw [hcur, schedStep_thr, preInstall_nnp filter w hn ha]
      simp
    · intro hts t ht htc
      rw [hcur] at htc ⊢
      rw [preInstall_filters, preInstall_filters]
      exact hsync hts t (by rw [preInstall_live] at ht; exact ht) htc
  rw [if_neg (by rw [this]; exact fun h => h rfl)]

/-- … in particular with a listener: `SECCOMP_FILTER_FLAG_NEW_LISTENER`, alone or with LOG, makes the
    kernel return a positive descriptor, which is not a refusal -/
theorem unprivileged_can_load_with_listener (U : Unsupported) (filter : Filter) (p : Prog)
    (hp : filter.policy = .prog p) (hn : filter.noNewPrivs = true) (w : World)
    (havail : w.seccompAvailable = true) (ha : w.nnpAvailable = true)
    (hok : p.ok = true ∧ p.len % 65536 ≠ 0 ∧ p.len % 65536 ≤ BPF_MAXINSNS)
    (hfl : filter.flag = FLAG_NEW_LISTENER ∨ filter.flag = FLAG_NEW_LISTENER ||| FLAG_LOG) :
    (Gen.loadFilter U filter w).1 = GoErr.nil := by
  apply unprivileged_can_load U filter p hp hn w havail ha hok
  · rcases hfl with h | h <;> rw [h] <;> decide
  · rcases hfl with h | h <;> rw [h] <;> decide
  · rcases hfl with h | h <;> rw [h] <;> intro hts <;> exact absurd rfl hts

/-- **Not requested ⇒ the loader issues no `prctl`**: the only kernel call it can make is the seccomp
    call (none at all if the policy does not assemble). -/
theorem no_prctl_if_not_requested (U : Unsupported) (filter : Filter) (hn : filter.noNewPrivs = false) (w : World) :
    (Gen.loadFilter U filter w).2.log = w.log ∨
    ∃ tid prog, (Gen.loadFilter U filter w).2.log = .seccomp tid 1 filter.flag prog :: w.log := by
  cases hpol : filter.policy with
  | assembleFails => left; rw [(gen_loadFilter_noprog U filter (by simp [hpol]) w).2]
  | encodeFails => left; rw [(gen_loadFilter_noprog U filter (by simp [hpol]) w).2]
  | prog p =>
    right
    obtain ⟨msg, _, heq⟩ := gen_loadFilter_prog U filter p hpol w (fun hf => by have := hf.1; rw [hn] at this; cases this)
    rw [heq]
    simp only
    rw [atReturn_log, (gen_seccomp_log U _ _ _).1, preInstall_off filter w hn]
    exact ⟨_, _, rfl⟩

/-- **Not requested ⇒ the bit is left as it was**: a thread has no_new_privs after the call only if it
    had it before, or (kernel behaviour of a successful thread-sync) the installing thread had it. -/
theorem nnp_untouched_if_not_requested (U : Unsupported) (filter : Filter) (hn : filter.noNewPrivs = false)
    (w : World) (t : Tid) (h : ((Gen.loadFilter U filter w).2.thr t).nnp = true) :
    (w.thr t).nnp = true ∨ (w.thr (C09.callThread filter w)).nnp = true := by
  cases hpol : filter.policy with
  | assembleFails => left; rw [(gen_loadFilter_noprog U filter (by simp [hpol]) w).2] at h; exact h
  | encodeFails => left; rw [(gen_loadFilter_noprog U filter (by simp [hpol]) w).2] at h; exact h
  | prog p =>
    obtain ⟨msg, _, heq⟩ := gen_loadFilter_prog U filter p hpol w (fun hf => by have := hf.1; rw [hn] at this; cases this)
    rw [heq] at h
    simp only at h
    rw [atReturn_thr, gen_seccomp_world, preInstall_off filter w hn] at h
    unfold C09.callThread
    rw [preInstall_off filter w hn]
    have hk := sysSeccomp_filter filter.flag (mkFprog (.prog p)) w
    generalize sysSeccomp 1 filter.flag (mkFprog (.prog p)) w = r at hk h
    cases hk with
    | declined e he _ => left; simpa [schedStep_thr] using h
    | refused t' _ _ _ => left; simpa [schedStep_thr] using h
    | attachedOne q _ _ _ _ _ _ =>
      left
      by_cases ht : t = (schedStep w).cur
      · subst ht; simpa [World.upd, schedStep_thr] using h
      · simpa [World.upd, ht, schedStep_thr] using h
    | attachedAll q _ _ _ _ _ _ _ =>
      simp only at h
      by_cases ht : t ∈ w.live
      · simp only [ht, if_true, Bool.or_eq_true, schedStep_thr] at h
        exact h
      · simp only [ht, if_false] at h
        exact .inl h

/-- **Unprivileged and not requested ⇒ an error, nothing installed** (when no thread has the bit). -/
theorem unprivileged_without_nnp_fails (U : Unsupported) (filter : Filter) (hn : filter.noNewPrivs = false)
    (w : World) (hc : w.cur ∈ w.live) (hpriv : w.privileged = false)
    (hbits : ∀ t ∈ w.live, (w.thr t).nnp = false) :
    (Gen.loadFilter U filter w).1 ≠ GoErr.nil ∧
      ∀ t, ((Gen.loadFilter U filter w).2.thr t).filters = (w.thr t).filters := by
  have herr : (Gen.loadFilter U filter w).1 ≠ GoErr.nil := by
    cases hpol : filter.policy with
    | assembleFails => exact (gen_loadFilter_noprog U filter (by simp [hpol]) w).1
    | encodeFails => exact (gen_loadFilter_noprog U filter (by simp [hpol]) w).1
    | prog p =>
      apply C09.kernel_refusal_is_error U filter p hpol w
      refine .inr (.inr (.inr (.inr (.inl ⟨?_, hpriv⟩))))
      rw [preInstall_off filter w hn]
      unfold C09.callThread
      rw [preInstall_off filter w hn]
      have := schedStep_cur_live w hc
      rw [schedStep_live] at this
      exact hbits _ this
  exact ⟨herr, C09.failed_load_attaches_nothing U filter w herr⟩

/-! ### the schedule that broke the pinned tree (DESIGN §7 F6), and why the lock matters

`unlockedLoad` is `LoadFilter` without `runtime.LockOSThread` (hand-written: it is *not* the code, it
shows that the model exhibits the failure the lock prevents). -/

def unlockedLoad (U : Unsupported) (filter : Filter) (p : Prog) (w : World) : GoErr × World :=
  let (err, w) := Gen.setNoNewPrivs U w
  if err ≠ GoErr.nil then (err, w) else Gen.seccomp U 1 filter.flag (some p) w

/-- unprivileged process, two threads, the goroutine is moved from thread 1 to thread 2 between the two
    calls (the first schedule point keeps it on 1) -/
def migrating : World :=
  { thr := fun _ => {}, live := [1, 2], cur := 1, privileged := false, sched := [1, 2] }

theorem migration_breaks_unlocked_load :
    (unlockedLoad C09.noU { noNewPrivs := true, flag := 0, policy := .prog C09.goodProg } C09.goodProg migrating).1
      = GoErr.errno EACCES := by decide

theorem migration_harmless_with_lock :
    (Gen.loadFilter C09.noU { noNewPrivs := true, flag := 0, policy := .prog C09.goodProg } migrating).1
      = GoErr.nil := by decide

/-- non-vacuity of the fault case: a privileged process (the seccomp call itself would succeed) on a
    kernel that refuses the option — an error, no seccomp call, no filter, no bit -/
def noNnpKernel : World :=
  { thr := fun _ => {}, live := [1, 2], cur := 1, privileged := true, nnpAvailable := false }

theorem nnp_fault_example :
    let r := Gen.loadFilter C09.noU { noNewPrivs := true, flag := 0, policy := .prog C09.goodProg } noNnpKernel
    r.1.cls = .errno EINVAL ∧ r.2.log = [.prctl 1 38 1 0 0 0] ∧ (r.2.thr 1).filters = [] ∧ (r.2.thr 1).nnp = false := by
  decide

end C11
