import Seccomp.Proofs.C09
/-!
# C10 — thread-sync covers every thread under every schedule

The kernel performs a thread-sync attach as one atomic step (it holds `sighand->siglock` and
`cred_guard_mutex`); that atomicity is an assumption about Linux and is what `sysSeccomp` models.
What is proved: the loader hands the flag word to the kernel unmodified, a nil result with thread-sync
means every live thread carries the filter, every thread created afterwards inherits it, and nothing
any thread does later (more filters, prctl, exits, clones, under any interleaving) removes it; without
thread-sync only the calling thread is touched.
-/

namespace C10

/-- **The flag word reaches the kernel unmodified** (and so do operation and program): the one seccomp
    call `LoadFilter` makes is `seccomp(SECCOMP_SET_MODE_FILTER, filter.Flag, &prog)`. -/
theorem flags_unmodified (U : Unsupported) (filter : Filter) (p : Prog) (hp : filter.policy = .prog p) (w : World)
    (hnf : ¬ nnpFault filter w) :
    ∃ rest, (Gen.loadFilter U filter w).2.log =
      .seccomp (C09.callThread filter w) SECCOMP_SET_MODE_FILTER filter.flag (mkFprog (.prog p)) :: rest := by
  obtain ⟨msg, _, heq⟩ := gen_loadFilter_prog U filter p hp w hnf
  rw [heq]
  simp only
  rw [atReturn_log, (gen_seccomp_log U _ _ _).1]
  exact ⟨_, rfl⟩

/-- … and in the one case excluded above (no_new_privs requested, `prctl` refuses it) no seccomp call is
    made at all: the log grows by the `prctl` only (`C09.nnp_refusal_is_error`). -/
theorem no_seccomp_call_on_nnp_fault (U : Unsupported) (filter : Filter) (p : Prog) (hp : filter.policy = .prog p)
    (w : World) (hf : nnpFault filter w) :
    (Gen.loadFilter U filter w).2.log = .prctl w.cur 38 1 0 0 0 :: w.log :=
  (C09.nnp_refusal_is_error U filter p hp w hf.1 hf.2).2.2.1

/-- the bit the wrapper tests for a refused thread-sync is the UAPI's TSYNC bit -/
theorem flag_constants : FLAG_TSYNC = 1 ∧ FLAG_LOG = 2 := ⟨rfl, rfl⟩

/-- every live thread carries filter `id` -/
def Covered (id : FilterId) (w : World) : Prop := ∀ t ∈ w.live, id ∈ (w.thr t).filters

/-- **nil with thread-sync ⇒ every existing thread is covered.** -/
theorem tsync_covers_existing (U : Unsupported) (filter : Filter) (w w' : World) (hc : w.cur ∈ w.live)
    (h : Gen.loadFilter U filter w = (GoErr.nil, w')) (hts : filter.flag &&& FLAG_TSYNC ≠ 0) :
    ∃ p, filter.policy = .prog p ∧ Covered p.id w' := by
  obtain ⟨p, hp, _, hall⟩ := C09.load_nil_implies_installed U filter w w' hc h
  refine ⟨p, hp, fun t ht => ?_⟩
  have := hall hts t ht
  cases hf : (w'.thr t).filters with
  | nil => rw [hf] at this; cases this
  | cons x rest =>
    rw [hf] at this
    simp only [List.head?_cons, Option.some.injEq] at this
    subst this
    exact List.mem_cons_self

/-- what can happen after the load returned: any thread enters the kernel (seccomp with any operation,
    flags and program; prctl with any arguments), threads are created by live threads, threads exit,
    the goroutine is rescheduled -/
inductive Step where
  | seccompBy (t : Tid) (op flags : Nat) (uargs : Option Prog)
  | prctlBy (t : Tid) (option a1 a2 a3 a4 : Nat)
  | clone (parent child : Tid)
  | exit (t : Tid)
  | resched

def onThread (t : Tid) (w : World) : World := if t ∈ w.live then { w with cur := t } else w

def Step.apply : Step → World → World
  | .seccompBy t op flags uargs, w => (sysSeccomp op flags uargs (onThread t w)).2.2
  | .prctlBy t o a1 a2 a3 a4, w => (sysPrctl o a1 a2 a3 a4 (onThread t w)).2.2
  | .clone p c, w => cloneThread p c w
  | .exit t, w => exitThread t w
  | .resched, w => schedStep w

/-- well-formed world: the goroutine runs on a live thread -/
def WF (w : World) : Prop := w.cur ∈ w.live

theorem onThread_wf (t : Tid) (w : World) (h : WF w) : WF (onThread t w) := by
  unfold onThread WF; split
  · assumption
  · exact h

theorem onThread_covered (id : FilterId) (t : Tid) (w : World) (h : Covered id w) : Covered id (onThread t w) := by
  unfold onThread; split <;> exact h

theorem sysSeccomp_preserves (id : FilterId) (op flags : Nat) (uargs : Option Prog) (w : World)
    (hwf : WF w) (h : Covered id w) :
    WF (sysSeccomp op flags uargs w).2.2 ∧ Covered id (sysSeccomp op flags uargs w).2.2 := by
  have hcl := schedStep_cur_live w hwf
  have hcov : Covered id (schedStep w) := by
    intro t ht; rw [schedStep_thr]; exact h t (by rw [schedStep_live] at ht; exact ht)
  by_cases hop : op = 1
  · subst hop
    have hk := sysSeccomp_filter flags uargs w
    generalize sysSeccomp 1 flags uargs w = r at hk
    cases hk with
    | declined e _ _ => exact ⟨hcl, hcov⟩
    | refused t _ _ _ => exact ⟨hcl, hcov⟩
    | attachedOne p _ _ _ _ _ _ =>
      refine ⟨hcl, fun t ht => ?_⟩
      by_cases htc : t = (schedStep w).cur
      · subst htc
        simp only [World.upd_thr_self]
        exact List.mem_cons_of_mem _ (hcov _ hcl)
      · rw [World.upd_thr_ne _ _ _ _ htc]
        exact hcov t ht
    | attachedAll p _ _ _ _ _ _ _ =>
      refine ⟨hcl, fun t ht => ?_⟩
      have ht' : t ∈ w.live := by simpa [schedStep_live] using ht
      simp only [ht', if_true]
      exact List.mem_cons_of_mem _ (hcov _ hcl)
  · rcases sysSeccomp_other op flags uargs w hop with h' | h'
    · rw [h']; exact ⟨hcl, hcov⟩
    · rw [h']
      refine ⟨hcl, fun t ht => ?_⟩
      by_cases htc : t = (schedStep w).cur
      · subst htc; simp only [World.upd_thr_self]; exact hcov _ hcl
      · rw [World.upd_thr_ne _ _ _ _ htc]; exact hcov t ht

theorem sysPrctl_preserves (id : FilterId) (o a1 a2 a3 a4 : Nat) (w : World) (hwf : WF w) (h : Covered id w) :
    WF (sysPrctl o a1 a2 a3 a4 w).2.2 ∧ Covered id (sysPrctl o a1 a2 a3 a4 w).2.2 := by
  have hcl := schedStep_cur_live w hwf
  have hcov : Covered id (schedStep w) := by
    intro t ht; rw [schedStep_thr]; exact h t (by rw [schedStep_live] at ht; exact ht)
  unfold sysPrctl
  simp only
  split
  · split
    · refine ⟨hcl, fun t ht => ?_⟩
      by_cases htc : t = (schedStep w).cur
      · subst htc; simp only [World.upd_thr_self]; exact hcov _ hcl
      · rw [World.upd_thr_ne _ _ _ _ htc]; exact hcov t ht
    · exact ⟨hcl, hcov⟩
  · exact ⟨hcl, hcov⟩

/-- one later step keeps every live thread — including a newly created one — covered -/
theorem step_preserves (id : FilterId) (s : Step) (w : World) (hwf : WF w) (h : Covered id w) :
    WF (s.apply w) ∧ Covered id (s.apply w) := by
  cases s with
  | seccompBy t op flags uargs =>
    exact sysSeccomp_preserves id op flags uargs _ (onThread_wf t w hwf) (onThread_covered id t w h)
  | prctlBy t o a1 a2 a3 a4 =>
    exact sysPrctl_preserves id o a1 a2 a3 a4 _ (onThread_wf t w hwf) (onThread_covered id t w h)
  | clone p c =>
    simp only [Step.apply, cloneThread]
    split
    · rename_i hpc
      refine ⟨List.mem_cons_of_mem _ hwf, fun t ht => ?_⟩
      simp only at ht ⊢
      by_cases htc : t = c
      · simp only [htc, if_true]; exact h p hpc.1
      · simp only [htc, if_false]
        rcases List.mem_cons.1 ht with h1 | h1
        · exact absurd h1 htc
        · exact h t h1
    · exact ⟨hwf, h⟩
  | exit t =>
    simp only [Step.apply, exitThread]
    split
    · rename_i hne
      refine ⟨?_, fun t' ht' => h t' (List.mem_filter.1 ht').1⟩
      simp only [WF, List.mem_filter, decide_eq_true_eq]
      exact ⟨hwf, fun hc => hne hc.symm⟩
    · exact ⟨hwf, h⟩
  | resched =>
    simp only [Step.apply]
    exact ⟨schedStep_cur_live w hwf, fun t ht => by
      rw [schedStep_thr]; exact h t (by rw [schedStep_live] at ht; exact ht)⟩

/-- **Every thread existing at that moment and every thread created afterwards stays subject to the
    filter**, whatever the threads do, in whatever order: induction over all later histories. -/
theorem tsync_covers_all_threads (U : Unsupported) (filter : Filter) (w w' : World) (hc : w.cur ∈ w.live)
    (h : Gen.loadFilter U filter w = (GoErr.nil, w')) (hts : filter.flag &&& FLAG_TSYNC ≠ 0)
    (later : List Step) :
    ∃ p, filter.policy = .prog p ∧ Covered p.id (later.foldl (fun w s => s.apply w) w') := by
  obtain ⟨p, hp, hcov⟩ := tsync_covers_existing U filter w w' hc h hts
  refine ⟨p, hp, ?_⟩
  have hnf : ¬ nnpFault filter w := by
    intro hf
    rw [gen_loadFilter_fault U filter p hp w hf] at h
    simp only [Prod.mk.injEq] at h
    exact absurd h.1 (by simp)
  have hwf' : WF w' := by
    obtain ⟨msg, _, heq⟩ := gen_loadFilter_prog U filter p hp w hnf
    rw [heq] at h
    simp only [Prod.mk.injEq] at h
    rw [← h.2]
    unfold WF
    rw [atReturn_cur, atReturn_live, (gen_seccomp_log U _ _ _).2.1, (gen_seccomp_log U _ _ _).2.2.1]
    have := schedStep_cur_live (preInstall filter w) (by rw [preInstall_cur, preInstall_live]; exact hc)
    rw [schedStep_live] at this
    exact this
  have : ∀ (steps : List Step) (w0 : World), WF w0 → Covered p.id w0 →
      Covered p.id (steps.foldl (fun w s => s.apply w) w0) := by
    intro steps
    induction steps with
    | nil => intro w0 _ h0; exact h0
    | cons s rest ih =>
      intro w0 hw0 h0
      obtain ⟨h1, h2⟩ := step_preserves p.id s w0 hw0 h0
      exact ih _ h1 h2
  exact this later w' hwf' hcov

/-- **Without thread-sync other threads are left untouched**: only the thread the call ran on can
    change (its chain, and its no_new_privs bit if that was requested). -/
theorem no_tsync_touches_caller_only (U : Unsupported) (filter : Filter) (w : World)
    (hts : filter.flag &&& FLAG_TSYNC = 0) (t : Tid) (ht : t ≠ C09.callThread filter w) (ht' : t ≠ w.cur) :
    (Gen.loadFilter U filter w).2.thr t = w.thr t := by
  cases hpol : filter.policy with
  | assembleFails => rw [(gen_loadFilter_noprog U filter (by simp [hpol]) w).2]
  | encodeFails => rw [(gen_loadFilter_noprog U filter (by simp [hpol]) w).2]
  | prog p =>
    have hpre : (preInstall filter w).thr t = w.thr t := by
      rcases preInstall_cases filter w with h | h | h <;> rw [h]
      · rfl
      · rw [World.upd_thr_ne _ _ _ _ ht']; rfl
    by_cases hf : nnpFault filter w
    · rw [gen_loadFilter_fault U filter p hpol w hf]
      simp only
      rw [atReturn_thr]; exact hpre
    obtain ⟨msg, _, heq⟩ := gen_loadFilter_prog U filter p hpol w hf
    rw [heq]
    simp only
    rw [atReturn_thr, gen_seccomp_world]
    have hk := sysSeccomp_filter filter.flag (mkFprog (.prog p)) (preInstall filter w)
    generalize sysSeccomp 1 filter.flag (mkFprog (.prog p)) (preInstall filter w) = r at hk
    unfold C09.callThread at ht
    cases hk with
    | declined e _ _ => simpa [schedStep_thr] using hpre
    | refused t' _ _ _ => simpa [schedStep_thr] using hpre
    | attachedOne q _ _ _ _ _ _ =>
      simp only
      rw [World.upd_thr_ne _ _ _ _ ht]
      simpa [schedStep_thr] using hpre
    | attachedAll q _ _ _ _ hts' _ _ => exact absurd hts hts'

/-! ### non-vacuity: four threads, thread-sync load from thread 2, then a clone and more activity -/

def fourThreads : World :=
  { thr := fun _ => {}, live := [1, 2, 3, 4], cur := 2, privileged := false, sched := [3, 1] }

theorem tsync_example :
    let r := Gen.loadFilter C09.noU { noNewPrivs := true, flag := 3, policy := .prog C09.goodProg } fourThreads
    r.1 = GoErr.nil ∧
    (([Step.clone 4 9, .seccompBy 9 1 0 (some { id := 5, len := 3, ok := true }), .exit 1].foldl
        (fun w s => s.apply w) r.2).live.all fun t =>
      (([Step.clone 4 9, .seccompBy 9 1 0 (some { id := 5, len := 3, ok := true }), .exit 1].foldl
        (fun w s => s.apply w) r.2).thr t).filters.contains 42) = true := by
  decide

end C10
