import Seccomp.Model.Text
import Seccomp.Model.Policy
import Seccomp.Gen.Purity
import Seccomp.Proofs.Lemmas.TextLemmas
import Seccomp.Proofs.C14
/-!
# C13 — compilation is deterministic, side-effect free and race-free   (partial)

What is proved here, for all inputs:

* the text of a flag or action value is a function of the value: `FilterFlag.String` iterates a fixed slice
  (regenerated fact) and its result does not depend on the iteration order of the map it looks names up in
  (`text_deterministic`); the pinned version, which ranged over the map, has two different outputs for `f = 3`
  (the `example` below); `Action.String` and `Action.Unpack` do not depend on the map order either
  (`action_text_function`, `unpack_order_independent`);
* the model compiler is a function (`compile_is_function`, trivial: it is a Lean function);
* `compile_pure`: the regenerated effect summary `Gen.Purity` of the real compiler's static call graph contains no `go`
  statement, its only `range` over a map is order-independent, it never stores into memory of a type that is
  reachable from the caller's `Policy` except the unexported `Policy.arch` cache, hands caller memory to no library
  function other than `strings.Join`/`append` (destination always fresh), and reads only package-level variables that
  are written by `init` functions only.

*Partial* (DESIGN.md §6 C13): freedom from data races under **all** schedules is not a theorem.  The purity facts are a
syntactic summary (static call graph, no aliasing analysis beyond "fresh local slice"); their consequence for concurrent
runs is monitored by the `purity` correspondence stream (repeated / concurrent / cross-process compiles, deep comparison of
the policy, `-race` builds in the thorough tier).
-/

namespace C13
open Text

/-! ## text forms -/

theorem flag_keys_unique : KeysUnique Gen.filterFlagNames := by decide
theorem action_keys_unique : KeysUnique Gen.actionNames := by decide
theorem action_names_unique : NamesUnique Gen.actionNames := by decide

/-- **The text form of a flag value is a deterministic function of the value.**  (1) `FilterFlag.String` contains no
    `range` over a map and its flag loop ranges over a literal slice of constants (facts regenerated from the source:
    go/types says what the `range` expressions are); (2) the slice covers exactly the named flags; (3) for every iteration
    order of the map `filterFlagNames` the result is the one for the literal order: the map is only looked up. -/
theorem text_deterministic :
    (Gen.flagStringRangesOverMap = false ∧ Gen.flagOrderKnown = true) ∧
    (Gen.flagOrder = Gen.filterFlagNames.map (·.1)) ∧
    (∀ (mapOrder : List (Nat × String)), mapOrder.Perm Gen.filterFlagNames → ∀ f,
       flagString mapOrder Gen.flagOrder f = flagString Gen.filterFlagNames Gen.flagOrder f) ∧
    (∀ f, flagStringNow f = flagString Gen.filterFlagNames Gen.flagOrder f) := by
  refine ⟨by decide, by decide, ?_, ?_⟩
  · intro mapOrder hperm f
    have hl := lookup_perm hperm flag_keys_unique
    have h1 : ∀ k, lookupName mapOrder k = lookupName Gen.filterFlagNames k := by
      intro k; unfold lookupName; rw [hl]
    have hfun : (fun flag => (flag, lookupName mapOrder flag)) = (fun flag => (flag, lookupName Gen.filterFlagNames flag)) := by
      funext k; rw [h1]
    unfold flagString flagStringCore
    rw [hl f, hfun]
  · intro f
    have : Gen.flagStringRangesOverMap = false := by decide
    simp [flagStringNow, this]

/-- the pinned tree's loop (`for flag, name := range filterFlagNames`) is *not* a function of the value: the two iteration
    orders of the map give two different texts for `f = 3` (F8; observed 171:29 in 200 calls) -/
example :
    flagStringMapOrder [(1, "tsync"), (2, "log")] 3 = "tsync|log" ∧
    flagStringMapOrder [(2, "log"), (1, "tsync")] 3 = "log|tsync" := by decide

/-- non-vacuity: what the repaired function prints -/
example : (List.range 8).map flagStringNow =
    ["", "tsync", "log", "tsync|log", "unknown", "tsync|unknown", "log|unknown", "tsync|log|unknown"] := by decide

/-- **The text form of an action value is a function of the value**: the lookup gives the same string for every
    iteration order of `actionNames`. -/
theorem action_text_function (order : List (Nat × String)) (h : order.Perm Gen.actionNames) (a : Nat) :
    actionStringWith order a = actionStringWith Gen.actionNames a := by
  unfold actionStringWith
  rw [lookup_perm h action_keys_unique]

/-- **`Action.Unpack` ranges over the map `actionNames` and still returns the same value for every
    iteration order**, because the names are pairwise distinct: at most one entry matches.  Stated for
    the function body regenerated from the source (`Gen.actionUnpackSkel`, the `range` as a loop over the
    entries in the given order): under every permutation of the table it stores and returns what the
    reference does. -/
theorem unpack_order_independent :
    Gen.actionUnpackRangeKind = "map" ∧
    ∀ (order : List (Nat × String)), order.Perm Gen.actionNames → ∀ rs,
      Gen.actionUnpackSkel order rs = toURes (unpackActionRunes rs) := by
  refine ⟨by decide, ?_⟩
  intro order h rs
  rw [C14.action_unpack_tie]
  congr 1
  unfold unpackActionRunes unpackWith
  simp only [Bool.false_eq_true, if_false, if_true]
  rw [find?_perm h]
  intro x hx y hy hpx hpy
  apply action_names_unique x hx y hy
  simp only [beq_iff_eq] at hpx hpy
  rw [hpx, hpy]

/-- `Operation.Unpack` ranges over the slice `Operations`, not over a map -/
theorem operation_unpack_ranges_over_slice :
    Gen.operationUnpackRangeKind = "slice" ∧ Gen.operationUnpackRangeExpr = "Operations" := by decide

/-! ## the compiler -/

/-- **Compiling is a function of (architecture, byte order, policy)**: trivial for the model — `assemblePolicy` is a
    total Lean function without state, so equal policies give equal instruction lists, on every call and in every
    process.  The content of C13 for the real code is the tie (exact-output correspondence, repeated and concurrent)
    plus `compile_pure`. -/
theorem compile_is_function (A : Option ArchInfo) (ly : Layout) (p q : Policy) (h : p = q) :
    assemblePolicy A ly p = assemblePolicy A ly q := by rw [h]

/-- the functions reachable from `Policy.Assemble` -/
def compileGraph : List String :=
  match Gen.Purity.reach.find? (fun r => r.1 == "Policy.Assemble") with
  | some r => r.2
  | none => []

/-- types of the objects that are reachable from a caller's `*Policy` (struct values, backing arrays, maps) -/
def policyMemoryTypes : List String := [
  "Policy", "[]SyscallGroup", "SyscallGroup", "[]string", "string", "[]NameWithConditions", "NameWithConditions",
  "ArgumentConditions", "[]Condition", "Condition", "Action", "Operation", "uint32", "uint64",
  "*arch.Info", "arch.Info", "map[string]int", "map[int]string", "arch.AuditArch", "int"]

/-- the one store into policy memory the compiler may make: the unexported architecture cache of a `Policy`, reached through a
    receiver, a parameter or a local pointer (whichever function of the graph does it) -/
def archCachePaths : List String := ["recv-ptr.arch", "param.arch", "local.arch"]

/-- `range` over a map, allowed because the loop body is order-independent:
    * `Program.Assemble`: `for label, indices := range p.labels { … labelsAt[index] = append(labelsAt[index], label) }` — the only
      use of `labelsAt[i]` is `for _, label := range labelsAt[i] { dest[label] = len(out) }`, which stores the *same* value for every
      label of the list (`labels_order_irrelevant` below);
    * `Action.Unpack`: `unpack_order_independent` above. -/
def allowedMapRanges : List (String × String) := [("Program.Assemble", "recv-ptr.labels"), ("Action.Unpack", "actionNames")]

/-- package-level variables the compiler and the text conversions read: the name tables, `Operations`, the two `arch.Info` values compared
    by pointer, the alias map, the byte order determined in `init` -/
def allowedReads : List String := [
  "actionNames", "filterFlagNames", "Operations", "nativeEndian", "arch.X32", "arch.X86_64", "arch.arches",
  "encoding/binary.LittleEndian", "encoding/binary.BigEndian"]

/-- library functions that receive caller-reachable memory: they only read it -/
def readOnlyCallees : List String := ["strings.Join"]

/-- the model of the label loop: storing the same value under every label of a list -/
def setAll (ls : List Nat) (v : Nat) (d : Nat → Option Nat) : Nat → Option Nat :=
  ls.foldl (fun d l => fun k => if k = l then some v else d k) d

theorem setAll_apply (ls : List Nat) (v : Nat) (d : Nat → Option Nat) (k : Nat) :
    setAll ls v d k = if k ∈ ls then some v else d k := by
  induction ls generalizing d with
  | nil => simp [setAll]
  | cons l rest ih =>
    have : setAll (l :: rest) v d = setAll rest v (fun k => if k = l then some v else d k) := rfl
    rw [this, ih]
    by_cases h1 : k ∈ rest <;> by_cases h2 : k = l <;> simp [h1, h2]

/-- `for _, label := range labelsAt[i] { dest[label] = len(out) }` gives the same `dest` for every order in which the map
    iteration delivered the labels -/
theorem labels_order_irrelevant (l₁ l₂ : List Nat) (h : l₁.Perm l₂) (v : Nat) (d : Nat → Option Nat) :
    setAll l₁ v d = setAll l₂ v d := by
  funext k
  rw [setAll_apply, setAll_apply]
  simp only [h.mem_iff]

/-- **The real compiler's call graph has no effect outside fresh memory** (regenerated syntactic summary, see the head of this file):
    1. the graph is the expected one (non-vacuity: it contains the group compiler and the label resolver);
    2. no `go` statement in any reachable function (compiler, text conversions, `arch.GetInfo`);
    3. every `range` over a map is one of the two order-independent loops, and only the range over the receiver's `labels` is in
       the compile graph (assigned and ranged expressions are compared by their *path* — the root variable replaced by its kind
       (receiver, parameter, local), field names kept — so that renaming a variable changes nothing);
    4. no store is rooted in a package-level variable or in an expression the translator could not resolve;
    5. in the compile graph the only store into an object of a type reachable from the caller's policy is the one into the field
       `arch` of a `Policy` (the unexported architecture cache — `arch` is not an exported field), so **no exported field
       of the caller's policy, no element of its slices and no `arch.Info` table is ever written**;  all other stores through
       receivers or parameters write objects of types that do not occur in policy memory (the `Program` builder created by
       `NewProgram()` inside the graph and whatever helper structures the compiler allocates itself);
    6. memory that can be shared with the caller is passed to no function outside the module except `strings.Join` (reads) and
       `append`, and an `append` whose destination has a policy-memory type (`[]string`) appends to a *fresh local* slice
       (declared nil / `make` / literal, only ever re-assigned from `append` of itself);
    7. the text conversions store only into their declared output (`*a = action`, `*o = name`) or a by-value receiver copy;
    8. every package-level variable read is in the list above, and none of these is written anywhere in the module outside `init`. -/
theorem compile_pure :
    (["Policy.Assemble", "Policy.Validate", "SyscallGroup.assemble", "SyscallGroup.toSyscallsWithConditions",
        "SyscallWithConditions.Assemble", "Program.Assemble", "ArgumentConditions.Validate", "arch.GetInfo"].all compileGraph.contains = true) ∧
    Gen.Purity.goStmts = [] ∧
    (∀ m ∈ Gen.Purity.mapRanges, (m.fn, m.text) ∈ allowedMapRanges ∧
        (m.fn ∈ compileGraph → (m.fn, m.text) = ("Program.Assemble", "recv-ptr.labels"))) ∧
    (∀ s ∈ Gen.Purity.stores, s.rootKind ≠ "pkgvar" ∧ s.rootKind ≠ "complex") ∧
    (∀ s ∈ Gen.Purity.stores, s.fn ∈ compileGraph →
        (s.objType ∈ policyMemoryTypes → s.objType = "Policy" ∧ s.path ∈ archCachePaths) ∧
        (s.rootKind = "recv-ptr" ∨ s.rootKind = "param" ∨ s.rootKind = "recv-val" →
            s.objType ∉ policyMemoryTypes ∨ (s.objType = "Policy" ∧ s.path ∈ archCachePaths))) ∧
    (∀ c ∈ Gen.Purity.extCalls, c.fn ∈ compileGraph →
        c.callee ∈ readOnlyCallees ∨ (c.callee = "append" ∧ (c.dstType ∉ policyMemoryTypes ∨ c.dstFresh = true))) ∧
    (∀ s ∈ Gen.Purity.stores, s.fn ∉ compileGraph →
        (s.fn, s.path) ∈ [("Action.Unpack", "*recv-ptr"), ("Operation.Unpack", "*recv-ptr")] ∨
        (s.rootKind = "recv-val" ∧ s.deref = false)) ∧
    (∀ r ∈ Gen.Purity.pkgVarReads, r.2 ∈ allowedReads) ∧
    (∀ w ∈ Gen.Purity.pkgVarWrites, w.root ∈ allowedReads → w.fn.startsWith "init@" = true) := by
  refine ⟨?_, ?_, ?_, ?_, ?_, ?_, ?_, ?_, ?_⟩
  · decide +kernel
  · decide +kernel
  · decide +kernel
  · decide +kernel
  · decide +kernel
  · decide +kernel
  · decide +kernel
  · decide +kernel
  · decide +kernel

/-- the cache field is unexported (so "exported fields are never written" follows from item 5) -/
theorem arch_cache_is_unexported :
    ∀ st ∈ Gen.structTags, st.1 = "Policy" ∨ st.1 = "SyscallGroup" →
      ∃ f ∈ st.2, f.name = "arch" ∧ f.exported = false ∧ f.goType = "*arch.Info" := by decide

end C13
