import Seccomp.Proofs.C01
/-!
# C05 — every emitted program is a valid seccomp filter with a closed return set
-/

namespace C05

/-- **Closed return set**: whatever the event, an accepted policy's filter returns the encoding of the
    default action, of one of the groups' actions, or ERRNO(ENOSYS) (the latter on x86_64 only).  In
    particular it always returns (never falls off the end, never gets stuck). -/
theorem compile_ret_closed (A : ArchInfo) (e : Endian) (p : Policy) (prog : List Instr)
    (h : assemblePolicy (some A) (Layout.ofEndian e) p = .ok prog) (ev : Event) (a0 : Word) :
    ∃ k, run (words e ev) prog a0 = .ret k ∧
      (k = enc p.default ∨ (∃ g ∈ p.groups, k = enc g.action) ∨ (A.id = auditArchX86_64 ∧ k = 0x00050026#32)) := by
  refine ⟨Spec.decision A p ev, C01.compile_correct A e p prog h ev a0, ?_⟩
  unfold Spec.decision
  split
  · exact .inl rfl
  · split
    · rename_i hx; exact .inr (.inr ⟨hx.1, rfl⟩)
    · split
      · rename_i g hg
        exact .inr (.inl ⟨g, List.mem_of_find?_eq_some hg, rfl⟩)
      · exact .inl rfl

end C05
