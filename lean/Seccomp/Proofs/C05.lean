import Seccomp.Proofs.C01
import Seccomp.Proofs.Lemmas.Validity
/-!
# C05 — every emitted program is a valid seccomp filter with a closed return set

`kernelAccepts` (Model/Raw.lean) is the port of the kernel's `bpf_check_classic` +
`seccomp_check_filter` (validated against the running kernel by the `verifier` stream of C08);
`encode` is `bpf.Assemble`.
-/

namespace C05

/-- the structural facts behind validity: strict jump bounds and loads inside the record for the whole
    program, the final instruction is the default return, all skips fit 8 bits, and syntactically every
    return value is the default's, a group's or the x32 guard's -/
theorem compile_structure (A : ArchInfo) (e : Endian) (p : Policy) (prog : List Instr)
    (h : assemblePolicy (some A) (Layout.ofEndian e) p = .ok prog) :
    StrictOk prog ∧ prog.all fits = true ∧ (∃ pre, prog = pre ++ [.ret (enc p.default)]) ∧
    RetsIn (enc p.default :: enosys :: p.groups.map (fun g => enc g.action)) prog := by
  unfold assemblePolicy at h
  split at h
  · cases h
  · split at h
    · cases h
    · simp only at h
      split at h
      · cases h
      · rename_i outs ho
        cases h
        obtain ⟨hb, hl, hr, hf⟩ := assembleGroups_shape A e p.groups outs ho
        have hbody : StrictOk (outs.flatten ++ [.ret (enc p.default)]) :=
          strictOk_append _ _ hb hl (by simp) (strictOk_ret _)
        refine ⟨strictOk_policyProg _ _ (by simp) hbody, fits_policyProg _ _ (by simp [List.all_append, hf, fits]),
          ?_, ?_⟩
        · unfold policyProg
          simp only
          split
          · exact ⟨[Instr.ld 4] ++ [Instr.jif .ne A.archI.id (x32Filter A.archI.x86 ++ (outs.flatten ++ [Instr.ret (enc p.default)])).length 0] ++ [Instr.ld 0] ++ x32Filter A.archI.x86 ++ outs.flatten, by simp⟩
          · exact ⟨[Instr.ld 4] ++ [Instr.jif .eq A.archI.id 1 0, Instr.ja (x32Filter A.archI.x86 ++ (outs.flatten ++ [Instr.ret (enc p.default)])).length] ++ [Instr.ld 0] ++ x32Filter A.archI.x86 ++ outs.flatten, by simp⟩
        · intro k hm
          unfold policyProg at hm
          simp only at hm
          have hx : ∀ k, Instr.ret k ∈ x32Filter A.archI.x86 → k = enosys := by
            intro k hk; cases hxx : A.archI.x86 <;> simp [x32Filter, hxx] at hk; exact hk
          have hbodyr : Instr.ret k ∈ x32Filter A.archI.x86 ++ (outs.flatten ++ [.ret (enc p.default)]) →
              k ∈ enc p.default :: enosys :: p.groups.map (fun g => enc g.action) := by
            intro hk
            rcases List.mem_append.1 hk with h1 | h1
            · simp [hx k h1]
            · rcases List.mem_append.1 h1 with h2 | h2
              · exact List.mem_cons_of_mem _ (List.mem_cons_of_mem _ (hr k h2))
              · simp at h2; simp [h2]
          split at hm
          · simp only [List.cons_append, List.nil_append, List.mem_cons, reduceCtorEq, false_or] at hm
            exact hbodyr hm
          · simp only [List.cons_append, List.nil_append, List.mem_cons, reduceCtorEq, false_or] at hm
            exact hbodyr hm

/-- **Every accepted policy's program passes the kernel's checker** (if it has at most 4096
    instructions): non-empty, every jump forward and strictly in bounds, the last instruction is a
    return (so every path ends in a return), only aligned 32-bit loads inside the 64-byte record, only
    the permitted opcodes — and it encodes to raw form without loss (all skips fit 8 bits, all operands
    32 bits).  This covers degenerate accepted policies: groups without names, maximal lists, long
    condition lists. -/
theorem compile_kernel_valid (A : ArchInfo) (e : Endian) (p : Policy) (prog : List Instr)
    (h : assemblePolicy (some A) (Layout.ofEndian e) p = .ok prog) (hlen : prog.length ≤ 4096) :
    kernelAccepts (prog.map encode) = true ∧ prog.all Instr.fitsRaw = true := by
  obtain ⟨hs, hf, ⟨pre, hpre⟩, _⟩ := compile_structure A e p prog h
  refine ⟨?_, fitsRaw_of_strict prog hs hlen hf⟩
  unfold kernelAccepts
  simp only [List.length_map, Bool.and_eq_true, decide_eq_true_eq]
  refine ⟨⟨⟨?_, hlen⟩, allInsnOk_of_strict prog hs⟩, ?_⟩
  · rw [hpre]; simp
  · rw [hpre]
    simp [lastIsRet, encode]

/-- **Closed return set, syntactically**: every `ret` instruction of the program — reachable or not —
    returns the encoding of the default action, of one of the groups' actions, or ERRNO|ENOSYS. -/
theorem compile_ret_closed_syntactic (A : ArchInfo) (e : Endian) (p : Policy) (prog : List Instr)
    (h : assemblePolicy (some A) (Layout.ofEndian e) p = .ok prog) (k : Word) (hk : Instr.ret k ∈ prog) :
    k = enc p.default ∨ k = 0x00050026#32 ∨ ∃ g ∈ p.groups, k = enc g.action := by
  have := (compile_structure A e p prog h).2.2.2 k hk
  simp only [List.mem_cons, List.mem_map] at this
  rcases this with h1 | h1 | ⟨g, hg, h1⟩
  · exact .inl h1
  · exact .inr (.inl h1)
  · exact .inr (.inr ⟨g, hg, h1.symm⟩)

/-- **Closed return set, semantically**: whatever the event, an accepted policy's filter returns, and
    the value is the encoding of the default action, of one of the groups' actions, or ERRNO(ENOSYS)
    (the latter on x86_64 only).  In particular it never falls off the end and never gets stuck. -/
theorem compile_ret_closed (A : ArchInfo) (e : Endian) (p : Policy) (prog : List Instr)
    (h : assemblePolicy (some A) (Layout.ofEndian e) p = .ok prog) (ev : Event) (a0 : Word) :
    ∃ k, run (words e ev) prog a0 = .ret k ∧
      (k = enc p.default ∨ (∃ g ∈ p.groups, k = enc g.action) ∨ (A.id = auditArchX86_64 ∧ k = 0x00050026#32)) := by
  refine ⟨Spec.decision A p ev, C01.compile_correct A e p prog h ev a0, ?_⟩
  unfold Spec.decision
  split
  · exact .inl rfl
  · split
    · rename_i hx; exact .inr (.inr ⟨hx.1, rfl⟩)
    · split
      · rename_i g hg
        exact .inr (.inl ⟨g, List.mem_of_find?_eq_some hg, rfl⟩)
      · exact .inl rfl

/-- the loads of a compiled program are exactly words of `struct seccomp_data`: number, architecture,
    or a half of one of the six arguments -/
theorem loads_inside_record (A : ArchInfo) (e : Endian) (p : Policy) (prog : List Instr)
    (h : assemblePolicy (some A) (Layout.ofEndian e) p = .ok prog) :
    StrictOk prog := (compile_structure A e p prog h).1

/-! ### non-vacuity: the degenerate policy that broke the pinned tree (all groups empty, DESIGN §7 F1) -/

def allEmpty : Policy :=
  { default := actKillProcess, groups := [ { names := [], withConds := [], action := actAllow },
                                           { names := [], withConds := [], action := actErrno } ] }

theorem allEmpty_valid :
    (match assemblePolicy (some C01.tinyArch) (Layout.ofEndian .little) allEmpty with
     | .ok prog => kernelAccepts (prog.map encode) && prog.length == 4
     | .error _ => false) = true := by decide +kernel

end C05
