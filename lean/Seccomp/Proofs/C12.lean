import Seccomp.Proofs.Lemmas.TableFacts
import Seccomp.Gen.GetInfo
/-!
# C12 — syscall tables and architecture metadata are correct and unambiguous

*For every supported architecture, name-to-number and number-to-name lookups are mutual inverses (no
name has two numbers, so lookups are deterministic), every number agrees with independent sources
for that ABI (kernel UAPI headers, Go's syscall tables) wherever they list the syscall, and each
audit-architecture identifier equals the kernel's AUDIT_ARCH constant.  Architecture aliases
(amd64/x86_64, 386/i386, arm64/aarch64, x32; any letter case) resolve to the same table, and
architectures without tables are reported as unsupported.*

All data comes from files regenerated from `/repo` on every run: `Gen.Tables` (the five tables, the
`Info` rows, the alias map, the audit constants, the `GetInfo` guard, the generator's ABI literals),
`Gen.TableCodes` (the same tables with Nat-coded names) and `Gen.Oracle` (kernel headers evaluated
by the C compiler, Go's `syscall`, three versions of `golang.org/x/sys`).  The finite facts are
decided by the Lean kernel (`Lemmas/TableFacts.lean`) and lifted here by general lemmas
(`Lemmas/TableLemmas.lean`, `Lemmas/TableCert.lean`).  The model of `invert`, the lookups and
`GetInfo` is `Model/Arch.lean`.

What is written by hand in this file, i.e. the *specification* side, is: which five tables exist
(`tables`), which alias is expected to name which Linux architecture (`expectedAliases`), which
architectures have a table (`expectedTable`), which kernel constant belongs to which architecture
(`kernelAuditName`), and the literal ABI column values of `syscall_64.tbl`.
-/

namespace C12
open Arch

/-- the five tables of `arch/zsyscalls.go`, by the name of their Go variable -/
def tables : List (String × Table) := [
  ("syscallsARM", Gen.syscallsARM),
  ("syscallsAARCH64", Gen.syscallsAARCH64),
  ("syscalls386", Gen.syscalls386),
  ("syscallsX32", Gen.syscallsX32),
  ("syscallsX86_64", Gen.syscallsX86_64)]

/-- `tables` lists exactly the `syscalls*` map literals found in the package, in source order (a
    sixth table in `/repo` would break this obligation instead of staying unchecked). -/
theorem tables_complete : tables.map (·.1) = Gen.tableNames := by decide +kernel

/-- `Arch.tableOf` (used by the `GetInfo` model) resolves each variable name to that table -/
theorem tableOf_tables : ∀ nt ∈ tables, tableOf nt.1 = nt.2 := by
  intro nt h
  simp only [tables, List.mem_cons, List.not_mem_nil, or_false] at h
  rcases h with rfl | rfl | rfl | rfl | rfl <;> simp [tableOf]

/-- the kernel-checked certificate of every table -/
theorem tables_certified : ∀ nt ∈ tables, Certified nt.1 nt.2 := by
  intro nt h
  simp only [tables, List.mem_cons, List.not_mem_nil, or_false] at h
  rcases h with rfl | rfl | rfl | rfl | rfl
  · exact ⟨_, _, codes_ARM, sorted_ARM, namesAsc_ARM, numbersUnique_ARM, by simp [sortedByName]⟩
  · exact ⟨_, _, codes_AARCH64, sorted_AARCH64, namesAsc_AARCH64, numbersUnique_AARCH64, by simp [sortedByName]⟩
  · exact ⟨_, _, codes_386, sorted_386, namesAsc_386, numbersUnique_386, by simp [sortedByName]⟩
  · exact ⟨_, _, codes_X32, sorted_X32, namesAsc_X32, numbersUnique_X32, by simp [sortedByName]⟩
  · exact ⟨_, _, codes_X86_64, sorted_X86_64, namesAsc_X86_64, numbersUnique_X86_64, by simp [sortedByName]⟩

/-! ## uniqueness, mutual inverses, determinism of `invert` -/

/-- **No number occurs twice** in any of the five tables. -/
theorem table_numbers_unique : ∀ nt ∈ tables, (nt.2.map (·.1)).Nodup :=
  fun nt h => (tables_certified nt h).numbers_nodup

/-- **No name has two numbers**: in each of the five tables the names are pairwise distinct.
    (Proved from "the sorted name codes are strictly ascending"; this is the statement the pinned
    tree violated for x32 — 36 names, e.g. `execve` = 59 and 520.) -/
theorem table_names_unique : ∀ nt ∈ tables, (nt.2.map (·.2)).Nodup :=
  fun nt h => (tables_certified nt h).names_nodup

/-- the Nat coding of names used by the finite checks is injective, so distinct codes are distinct
    names and a code in an oracle list denotes exactly one name -/
theorem name_code_injective : ∀ s t : String, enc s = enc t → s = t := enc_inj

/-- **Mutual inverses**: on every table, looking a name up gives `nr` iff looking `nr` up gives
    that name (both mean: `(nr, name)` is an entry). -/
theorem lookup_inverse : ∀ nt ∈ tables, ∀ (name : String) (nr : Nat),
    nameToNr nt.2 name = some nr ↔ nrToName nt.2 nr = some name := by
  intro nt h name nr
  rw [nameToNr_eq_some_iff nt.2 (table_names_unique nt h),
      nrToName_eq_some_iff nt.2 (table_numbers_unique nt h)]

/-- non-vacuity of `lookup_inverse`: every entry is found, in both directions -/
theorem lookup_finds_every_entry : ∀ nt ∈ tables, ∀ p ∈ nt.2,
    nameToNr nt.2 p.2 = some p.1 ∧ nrToName nt.2 p.1 = some p.2 :=
  fun nt h p hp =>
    ⟨(nameToNr_eq_some_iff nt.2 (table_names_unique nt h) p.2 p.1).mpr hp,
     (nrToName_eq_some_iff nt.2 (table_numbers_unique nt h) p.1 p.2).mpr hp⟩

/-- **General lemma**: inverting an association list whose values are pairwise distinct gives the
    same map for every iteration order (any two permutations of the entries). -/
theorem invert_order_independent (l₁ l₂ : Table) (hp : l₁.Perm l₂) (hnd : (l₁.map (·.2)).Nodup) :
    invert l₁ = invert l₂ := invert_perm l₁ l₂ hp hnd

/-- **Lookups are deterministic**: for each of the five tables, `invert` run with *any* iteration
    order of the Go map (any permutation `order` of the entries) yields one and the same
    name → number map, namely the first-match lookup `nameToNr`. -/
theorem invert_deterministic : ∀ nt ∈ tables, ∀ order : Table, order.Perm nt.2 →
    invert order = nameToNr nt.2 :=
  fun nt h order hp => invert_eq_nameToNr nt.2 order hp (table_names_unique nt h)

/-- the distinctness hypothesis is necessary: the pinned x32 table contained both `59: "execve"` and
    `520: "execve"`, and the two iteration orders of these entries invert differently -/
theorem invert_ambiguous_without_distinct_names :
    ∃ l₁ l₂ : Table, l₁.Perm l₂ ∧ invert l₁ "execve" = some 520 ∧ invert l₂ "execve" = some 59 :=
  ⟨[(59, "execve"), (520, "execve")], [(520, "execve"), (59, "execve")],
   List.Perm.swap _ _ _, by decide, by decide⟩

/-- `len(arch.SyscallNames) == 0` in `GetInfo`: an inverted map is empty exactly when the literal
    is, for every iteration order (justifies `Arch.namesEmpty`) -/
theorem inverted_map_empty_iff (t order : Table) (hp : order.Perm t) :
    (∀ x, invert order x = none) ↔ t = [] := by
  constructor
  · intro h
    cases t with
    | nil => rfl
    | cons p t =>
      have hm : p ∈ order := hp.mem_iff.mpr List.mem_cons_self
      have := invertFrom_isSome order NameMap.empty p.2 ⟨p, hm, rfl⟩
      rw [← invert_eq_invertFrom, h p.2] at this
      cases this
  · intro h x
    subst h
    rw [List.perm_nil.mp hp]
    rfl

/-! ## agreement with independent sources -/

/-- every oracle source describes one of the five tables -/
theorem oracle_sources_name_tables : ∀ s ∈ Gen.Oracle.sources, s.table ∈ tables.map (·.1) := by
  decide +kernel

/-- **Every number agrees with every independent source for that ABI, wherever the source lists the
    syscall**: for each source `s` (kernel `unistd_64.h`, `unistd_32.h`, `unistd_x32.h` — numbers
    without `__X32_SYSCALL_BIT` —, `asm-generic/unistd.h` evaluated for arm64, Go's `syscall` and
    `x/sys` v0.19/v0.29/v0.48 for 386, amd64, arm, arm64), for the table `nt` of the ABI the source
    describes, and for every name the source lists with number `nr` (names are identified by their
    injective code `enc name`): the table either does not know the name or maps it to `nr`. -/
theorem table_agrees_with_oracles : ∀ s ∈ Gen.Oracle.sources, ∀ nt ∈ tables, nt.1 = s.table →
    ∀ (name : String) (nr : Nat), (enc name, nr) ∈ s.entries →
      nameToNr nt.2 name = none ∨ nameToNr nt.2 name = some nr := by
  intro s hs nt hnt htab name nr hmem
  have hall := List.all_eq_true.mp oracle_agrees s hs
  rw [← htab] at hall
  exact (tables_certified nt hnt).agrees s.entries hall name nr hmem

/-- non-vacuity: every available source shares at least 250 names with its table … -/
theorem oracle_overlap : ∀ s ∈ Gen.Oracle.sources, s.available = true → 250 ≤ shared s := by
  decide +kernel

/-- … and every table has an available source (on this host: all twenty) -/
theorem oracle_sources_present : ∀ nt ∈ tables,
    ∃ s ∈ Gen.Oracle.sources, s.table = nt.1 ∧ s.available = true := by
  decide +kernel

/-- the translator's name coding is `Arch.enc` and the sources say what one expects, on well-known
    entries (string-level spot checks of the Nat-coded oracle lists) -/
theorem oracle_examples :
    (enc "openat", 257) ∈ Gen.Oracle.src_uapi_asm_unistd_64_h ∧
    (enc "execve", 59) ∈ Gen.Oracle.src_uapi_asm_unistd_64_h ∧
    (enc "execve", 520) ∈ Gen.Oracle.src_uapi_asm_unistd_x32_h ∧
    (enc "openat", 257) ∈ Gen.Oracle.src_uapi_asm_unistd_x32_h ∧
    (enc "openat", 295) ∈ Gen.Oracle.src_uapi_asm_unistd_32_h ∧
    (enc "openat", 56) ∈ Gen.Oracle.src_uapi_asm_generic_unistd_h_arm64_ ∧
    (enc "openat", 322) ∈ Gen.Oracle.src_go_syscall_arm ∧
    (enc "pread64", 17) ∈ Gen.Oracle.src_go_syscall_amd64 ∧
    (enc "_sysctl", 149) ∈ Gen.Oracle.src_xsys_v0_48_0_386 := by
  decide +kernel

/-! ## audit architecture identifiers -/

/-- which `AUDIT_ARCH_*` constant of `linux/audit.h` belongs to which `Info.Name`
    (x32 is the x86-64 architecture with `__X32_SYSCALL_BIT` in the number) -/
def kernelAuditName : List (String × String) := [
  ("arm", "AUDIT_ARCH_ARM"), ("aarch64", "AUDIT_ARCH_AARCH64"), ("i386", "AUDIT_ARCH_I386"),
  ("x32", "AUDIT_ARCH_X86_64"), ("x86_64", "AUDIT_ARCH_X86_64"),
  ("ppc", "AUDIT_ARCH_PPC"), ("ppc64", "AUDIT_ARCH_PPC64"), ("ppc64le", "AUDIT_ARCH_PPC64LE"),
  ("s390", "AUDIT_ARCH_S390"), ("s390x", "AUDIT_ARCH_S390X"),
  ("mips", "AUDIT_ARCH_MIPS"), ("mipsel", "AUDIT_ARCH_MIPSEL"), ("mips64", "AUDIT_ARCH_MIPS64"),
  ("mips64n32", "AUDIT_ARCH_MIPS64N32"), ("mipsel64", "AUDIT_ARCH_MIPSEL64"),
  ("mipsel64n32", "AUDIT_ARCH_MIPSEL64N32")]

/-- `auditArchFOO` ↦ `AUDIT_ARCH_FOO` -/
def kernelConstName (goName : String) : String :=
  "AUDIT_ARCH_" ++ String.ofList (goName.toList.drop "auditArch".length)

/-- **Each `Info.ID` equals the kernel's `AUDIT_ARCH_*` constant of the same architecture**, as
    evaluated from `linux/audit.h` + `linux/elf-em.h` by the C compiler. -/
theorem audit_ids_equal_kernel : ∀ r ∈ Gen.archRows,
    (List.lookup r.name kernelAuditName).bind (fun k => List.lookup k Gen.Oracle.auditArch) = some r.id := by
  decide +kernel

/-- the same for the whole constant block of `zarches.go` (29 constants, also those no `Info` uses) -/
theorem audit_consts_equal_kernel : ∀ c ∈ Gen.auditConsts,
    Gen.Oracle.auditArch.lookup (kernelConstName c.1) = some c.2 := by
  decide +kernel

/-- `SeccompMask` is `__X32_SYSCALL_BIT` (0x40000000) on X32 and absent everywhere else, and the X32
    row exists. -/
theorem x32_mask : (∀ r ∈ Gen.archRows, r.mask = if r.name = "x32" then 0x40000000 else 0) ∧
    (∃ r ∈ Gen.archRows, r.name = "x32") := by
  decide +kernel

/-! ## aliases and unsupported architectures -/

/-- key of `arches` ↦ `Info.Name` it must resolve to -/
def expectedAliases : List (String × String) := [
  ("arm", "arm"), ("ppc", "ppc"), ("ppc64", "ppc64"), ("ppc64le", "ppc64le"), ("s390", "s390"),
  ("s390x", "s390x"), ("mips", "mips"), ("mipsle", "mipsel"), ("mips64", "mips64"),
  ("i386", "i386"), ("386", "i386"),
  ("x32", "x32"), ("x86_64", "x86_64"), ("amd64", "x86_64"),
  ("aarch64", "aarch64"), ("arm64", "aarch64"),
  ("mips64n32", "mips64n32"), ("mips64p32", "mips64n32"),
  ("mipsel64", "mipsel64"), ("mips64le", "mipsel64"),
  ("mipsel64n32", "mipsel64n32"), ("mips64p32le", "mipsel64n32")]

/-- `Info.Name` ↦ Go variable of its syscall table, for the architectures that have one -/
def expectedTable : List (String × String) := [
  ("arm", "syscallsARM"), ("aarch64", "syscallsAARCH64"), ("i386", "syscalls386"),
  ("x32", "syscallsX32"), ("x86_64", "syscallsX86_64")]

/-- every value of the alias map is a declared `Info` variable (anything else does not compile) -/
theorem alias_values_are_rows : ∀ kv ∈ Gen.arches, (rowOfVar kv.2).isSome = true := by
  decide +kernel

theorem lookup_is_row {key v : String} (h : Gen.arches.lookup key = some v) : ∃ r, rowOfVar v = some r := by
  have hm : (key, v) ∈ Gen.arches := by
    have : ∀ (l : List (String × String)), l.lookup key = some v → (key, v) ∈ l := by
      intro l
      induction l with
      | nil => intro h; cases h
      | cons a l ih =>
        intro h
        obtain ⟨k, x⟩ := a
        simp only [List.lookup] at h
        split at h
        · rename_i heq
          have hk : key = k := by simpa using heq
          cases h; subst hk; exact List.mem_cons_self
        · exact List.mem_cons_of_mem _ (ih h)
    exact this _ h
  have := alias_values_are_rows _ hm
  cases hr : rowOfVar v with
  | none => rw [hr] at this; cases this
  | some r => exact ⟨r, rfl⟩

/-- **Translator tie, `GetInfo`.**  The rendering of the function body regenerated from arch/info.go
    (`Gen.getInfoSkel`: its statements over map lookup, lower-casing, `len`, Go's short-circuit
    operators, with a nil dereference as an explicit outcome) returns, for every `GOARCH` and every
    name, exactly what the hand-written reference `Arch.getInfo` returns — in particular it never
    panics and contains no statement outside the translated subset.  Proved by cases on what the two
    possible keys find in the alias map and on whether the row's table is empty, not on how the source
    arranges its tests, so an equivalent arrangement proves the same way. -/
theorem getinfo_tie (goarch name : String) :
    Gen.getInfoSkel goarch name = toRes (getInfo goarch name) := by
  unfold Gen.getInfoSkel getInfo resolve
  by_cases hn : name = ""
  · cases h1 : Gen.arches.lookup goarch with
    | none => simp [hn, lookupArch, h1, ite3, orS, andS, notS, cmpS, lenNames, toRes]
    | some v =>
      obtain ⟨r, hr⟩ := lookup_is_row h1
      cases ht : tableOf r.names <;>
        simp [hn, lookupArch, h1, hr, ite3, orS, andS, notS, cmpS, lenNames, namesEmpty, ht, toRes]
  · cases h1 : Gen.arches.lookup (lower name) with
    | none => simp [hn, lookupArch, h1, ite3, orS, andS, notS, cmpS, lenNames, toRes]
    | some v =>
      obtain ⟨r, hr⟩ := lookup_is_row h1
      cases ht : tableOf r.names <;>
        simp [hn, lookupArch, h1, hr, ite3, orS, andS, notS, cmpS, lenNames, namesEmpty, ht, toRes]

/-- the translator rendered every statement of `GetInfo` -/
theorem getinfo_rendered : Gen.getInfoNotes = [] := by decide

/-- a non-empty name is looked up lower-cased; the empty name means `runtime.GOARCH` -/
theorem getInfo_nonempty (goarch s : String) (hs : s ≠ "") : getInfo goarch s = resolve (lower s) := by
  unfold getInfo
  rw [if_neg hs]

theorem getInfo_empty (goarch : String) : getInfo goarch "" = resolve goarch := by
  unfold getInfo
  rw [if_pos rfl]

/-- **Any letter case**: spellings that lower-case to the same string get the same answer. -/
theorem getInfo_case_insensitive (goarch s t : String) (hs : s ≠ "") (ht : t ≠ "")
    (h : lower s = lower t) : getInfo goarch s = getInfo goarch t := by
  rw [getInfo_nonempty goarch s hs, getInfo_nonempty goarch t ht, h]

/-- every key of `arches` is already lower case (so the key itself is a spelling of itself), and
    mixed-case / İ / K spellings lower-case as `strings.ToLower` does -/
theorem lower_examples : (∀ kv ∈ Gen.arches, lower kv.1 = kv.1) ∧
    lower "AMD64" = "amd64" ∧ lower "X86_64" = "x86_64" ∧ lower "Arm64" = "arm64" ∧
    lower "aArCh64" = "aarch64" ∧ lower "I386" = "i386" ∧ lower "X32" = "x32" ∧
    lower "MİPS" = "mips" ∧ lower "K" = "k" ∧ lower "é" = "é" := by
  decide +kernel

/-- the alias map has exactly the expected keys (so every alias is covered by `aliases_resolve` or
    `tableless_arch_unsupported`), and the aliases the property names are among them -/
theorem alias_keys_expected :
    (∀ kv ∈ Gen.arches, (expectedAliases.lookup kv.1).isSome = true) ∧
    (∀ kn ∈ expectedAliases, (Gen.arches.lookup kn.1).isSome = true) ∧
    (∀ k ∈ ["amd64", "x86_64", "386", "i386", "arm64", "aarch64", "x32", "arm"],
      ((List.lookup k expectedAliases).bind (fun n => List.lookup n expectedTable)).isSome = true) := by
  decide +kernel

/-- rows with a table use one literal for both directions (`SyscallNumbers: t`,
    `SyscallNames: invert(t)`), it is the table of that architecture and it is not empty; the other
    rows have neither field -/
theorem rows_tables : ∀ r ∈ Gen.archRows,
    r.table = r.names ∧ r.names = (List.lookup r.name expectedTable).getD "" ∧
    (r.names ≠ "" → (tableOf r.names).isEmpty = false) := by
  decide +kernel

def resolvesTo (k n tbl : String) : Bool :=
  match resolve k with
  | .ok r => r.name == n && r.table == tbl && r.names == tbl
  | .error _ => false

def resolveFails (k : String) : Bool :=
  match resolve k with
  | .ok _ => false
  | .error e => e == Err.unsupported k

def resolvesAsExpected (kn : String × String) : Bool :=
  match List.lookup kn.2 expectedTable with
  | some tbl => resolvesTo kn.1 kn.2 tbl
  | none => resolveFails kn.1

/-- every key of the alias map resolves to the expected architecture: to its `Info` and table if it
    has one, to the unsupported-architecture error otherwise (finite check of `Arch.resolve`) -/
theorem resolve_expected : ∀ kn ∈ expectedAliases, resolvesAsExpected kn = true := by
  decide +kernel

/-- **Aliases resolve to the same table, in any letter case**: for every key `k` of `arches` whose
    architecture `n` has a table (`arm`; `i386`/`386`; `x32`; `x86_64`/`amd64`; `aarch64`/`arm64`)
    and every spelling `s` that lower-cases to `k`, `GetInfo(s)` succeeds with the `Info` whose
    `Name` is `n` and whose two maps come from that architecture's table — whatever `GOARCH` is. -/
theorem aliases_resolve : ∀ kn ∈ expectedAliases, ∀ tbl, expectedTable.lookup kn.2 = some tbl →
    ∀ (goarch s : String), s ≠ "" → lower s = kn.1 →
      ∃ r, getInfo goarch s = .ok r ∧ r.name = kn.2 ∧ r.table = tbl ∧ r.names = tbl := by
  intro kn hkn tbl htbl goarch s hs hl
  have h := resolve_expected kn hkn
  simp only [resolvesAsExpected, htbl, resolvesTo] at h
  rw [getInfo_nonempty goarch s hs, hl]
  split at h
  · rename_i r hr
    simp only [Bool.and_eq_true, beq_iff_eq] at h
    exact ⟨r, hr, h.1.1, h.1.2, h.2⟩
  · cases h

/-- the pairs named by the property, spelled out: both spellings give the same result, which is the
    table of that architecture -/
theorem alias_pairs (goarch : String) :
    getInfo goarch "amd64" = getInfo goarch "x86_64" ∧
    (getInfo goarch "amd64").toOption.map (·.names) = some "syscallsX86_64" ∧
    getInfo goarch "386" = getInfo goarch "i386" ∧
    (getInfo goarch "386").toOption.map (·.names) = some "syscalls386" ∧
    getInfo goarch "arm64" = getInfo goarch "aarch64" ∧
    (getInfo goarch "arm64").toOption.map (·.names) = some "syscallsAARCH64" ∧
    getInfo goarch "x32" = getInfo goarch "X32" ∧
    (getInfo goarch "x32").toOption.map (fun r => (r.names, r.mask)) = some ("syscallsX32", 0x40000000) := by
  have e : ∀ s : String, s ≠ "" → getInfo goarch s = resolve (lower s) := getInfo_nonempty goarch
  rw [e "amd64" (by decide), e "x86_64" (by decide), e "386" (by decide), e "i386" (by decide),
      e "arm64" (by decide), e "aarch64" (by decide), e "x32" (by decide), e "X32" (by decide)]
  decide +kernel

/-- **Architectures without tables are unsupported**: for every key of `arches` whose `Info` has no
    `SyscallNames` (ppc, ppc64, ppc64le, s390, s390x, mips, mipsle, mips64, mips64n32/p32,
    mipsel64/mips64le, mipsel64n32/mips64p32le) `GetInfo` returns the error, in any letter case. -/
theorem tableless_arch_unsupported : ∀ kv ∈ Gen.arches, ∀ r, rowOfVar kv.2 = some r → r.names = "" →
    ∀ (goarch s : String), s ≠ "" → lower s = kv.1 →
      getInfo goarch s = .error (.unsupported kv.1) := by
  have key : ∀ kv ∈ Gen.arches, ∀ r, rowOfVar kv.2 = some r → r.names = "" → resolveFails kv.1 = true := by
    decide +kernel
  intro kv hkv r hr hn goarch s hs hl
  have h := key kv hkv r hr hn
  rw [getInfo_nonempty goarch s hs, hl]
  simp only [resolveFails] at h
  split at h
  · cases h
  · rename_i e he
    rw [he, eq_of_beq h]

/-- … these are exactly the eleven rows marked "not fully implemented" in `info.go` -/
theorem tableless_rows :
    (Gen.archRows.filter (fun r => r.names == "")).map (·.name) =
      ["ppc", "ppc64", "ppc64le", "s390", "s390x", "mips", "mipsel", "mips64", "mips64n32",
       "mipsel64", "mipsel64n32"] := by
  decide +kernel

/-- **Unknown names are unsupported**: a non-empty name whose lower-casing is not a key of `arches`
    is an error. -/
theorem unknown_arch_unsupported (goarch s : String) (hs : s ≠ "")
    (hk : lower s ∉ Gen.arches.map (·.1)) : getInfo goarch s = .error (.unsupported (lower s)) := by
  rw [getInfo_nonempty goarch s hs]
  unfold resolve
  have : Gen.arches.lookup (lower s) = none := by
    rw [List.lookup_eq_none_iff]
    intro p hp
    simp only [bne_iff_ne, ne_eq]
    intro e
    exact hk (List.mem_map.mpr ⟨p, hp, e.symm⟩)
  rw [this]

/-- the empty name stands for `runtime.GOARCH`: supported on the GOARCHes with a table, an error on
    the others (e.g. a ppc64le or riscv64 build) -/
theorem empty_name_is_goarch :
    (getInfo "amd64" "").toOption.map (·.name) = some "x86_64" ∧
    (getInfo "386" "").toOption.map (·.name) = some "i386" ∧
    (getInfo "arm" "").toOption.map (·.name) = some "arm" ∧
    (getInfo "arm64" "").toOption.map (·.name) = some "aarch64" ∧
    getInfo "ppc64le" "" = .error (.unsupported "ppc64le") ∧
    getInfo "s390x" "" = .error (.unsupported "s390x") ∧
    getInfo "riscv64" "" = .error (.unsupported "riscv64") := by
  simp only [getInfo_empty]
  decide +kernel

/-! ## the generator's ABI filter -/

/-- `buildX32` skips the rows whose ABI column is `64`, `buildX86_64` those whose column is `x32` —
    the literal values of the second column of `arch/x86/entry/syscalls/syscall_64.tbl`
    (`common`, `64`, `x32`).  The pinned generator compared with `"x64"`, which never matches, and
    so copied the 64-bit-only rows into the x32 table (F7). -/
theorem abi_filter_matches_tbl_format :
    Gen.x32BuilderSkipsAbi = "64" ∧ Gen.x86_64BuilderSkipsAbi = "x32" := by
  decide +kernel

end C12
