import Seccomp.Model.Raw
/-!
# Driver requests for the raw form
  `R n instr*`            → `RAW n op:jt:jf:k*`      (encode; `UNFIT` if a field does not fit its width)
  `K n op:jt:jf:k*`       → `ACCEPT` | `REJECT`      (kernelAccepts)
-/
namespace Driver.Raw

def renderRaw (r : RawInsn) : String := s!"{r.op}:{r.jt}:{r.jf}:{r.k}"

def handleR (prog : List Instr) : String :=
  if prog.all Instr.fitsRaw then
    (prog.map encode).foldl (fun acc r => acc ++ " " ++ renderRaw r) s!"RAW {prog.length}"
  else "UNFIT"

def parseRaw (t : String) : Option RawInsn :=
  match t.splitOn ":" with
  | [a, b, c, d] =>
    match a.toNat?, b.toNat?, c.toNat?, d.toNat? with
    | some a, some b, some c, some d => some ⟨a, b, c, d⟩
    | _, _, _, _ => none
  | _ => none

def handleK (toks : List String) : String :=
  match toks with
  | n :: rest =>
    match n.toNat?, rest.mapM parseRaw with
    | some n, some raws => if raws.length = n then (if kernelAccepts raws then "ACCEPT" else "REJECT") else "BAD-REQUEST"
    | _, _ => "BAD-REQUEST"
  | _ => "BAD-REQUEST"

end Driver.Raw
