import Seccomp.Model.LoaderSpec
/-!
# Driver for live-kernel histories (C08–C11): the loader specification run on concrete worlds

Request:  `H <privileged 0|1> <k> <nops> op*`
  threads `0 … k-1` are the harness' pinned threads, thread `k` stands for all other runtime threads.
  op := `load <thread> <nnp 0|1> <flags> <policy>`   policy := `A` (assemble fails) | `E` (encode fails) | `P <len> <ok 0|1>`
      | `supported <thread>`
      | `loadfree <nnp> <flags> <policy>`            (an unpinned goroutine: runs on thread k+1, may not migrate if locked)
      | `setnnp <thread>`                            (the exported SetNoNewPrivs() on a pinned thread)
      | `loadunpin <thread> <nnp> <flags> <policy>`  (a goroutine that starts on that thread without being pinned to it)
Reply:    one token group per op, separated by ` | `:
  `<result> <nfilters nnp>*(k+1 threads)`   result := `nil` | `errno:<n>` | `other` | `true` | `false`
-/

namespace Driver.Loader

def showErr : ErrClass → String
  | .nil => "nil"
  | .errno e => s!"errno:{e}"
  | .other => "other"

def showThreads (w : World) (n : Nat) : String :=
  (List.range n).foldl (fun acc t =>
    acc ++ s!" {(w.thr t).filters.length} {if (w.thr t).nnp then 1 else 0}") ""

structure St where
  w : World
  next : Nat      -- next filter id
  out : List String

def parsePolicy : List String → Option (Nat → PolicyOutcome) × List String
  | "A" :: rest => (some (fun _ => .assembleFails), rest)
  | "E" :: rest => (some (fun _ => .encodeFails), rest)
  | "P" :: len :: ok :: rest =>
    (match len.toNat? with
     | some l => some (fun id => .prog { id := id, len := l, ok := ok == "1" })
     | none => none, rest)
  | rest => (none, rest)

partial def ops (k : Nat) : Nat → List String → St → Option St
  | 0, [], st => some st
  | 0, _, _ => none
  | n+1, "load" :: t :: nnp :: flags :: rest, st =>
    match t.toNat?, flags.toNat?, parsePolicy rest with
    | some t, some fl, (some pol, rest') =>
      let w := { st.w with cur := t }
      let (err, w') := LoaderSpec.load { noNewPrivs := nnp == "1", flag := fl, policy := pol st.next } w
      ops k n rest' { w := w', next := st.next + 1, out := st.out ++ [showErr err ++ showThreads w' (k + 2)] }
    | _, _, _ => none
  | n+1, "loadfree" :: nnp :: flags :: rest, st =>
    match flags.toNat?, parsePolicy rest with
    | some fl, (some pol, rest') =>
      -- the unpinned goroutine is on thread k+1; the schedule oracle tries to move it to thread k
      let w := { st.w with cur := k + 1, sched := [k + 1, k] }
      let (err, w') := LoaderSpec.load { noNewPrivs := nnp == "1", flag := fl, policy := pol st.next } w
      ops k n rest' { w := { w' with sched := [] }, next := st.next + 1,
                      out := st.out ++ [showErr err ++ showThreads w' (k + 2)] }
    | _, _ => none
  | n+1, "setnnp" :: t :: rest, st =>
    -- the exported SetNoNewPrivs() on a pinned thread
    match t.toNat? with
    | some t =>
      let w := { st.w with cur := t }
      let r := sysPrctl PR_SET_NO_NEW_PRIVS 1 0 0 0 w
      ops k n rest { st with w := r.2.2, out := st.out ++ [showErr (if r.2.1 = 0 then .nil else .errno r.2.1) ++ showThreads r.2.2 (k + 2)] }
    | none => none
  | n+1, "loadunpin" :: t :: nnp :: flags :: rest, st =>
    -- a load by a goroutine that starts on thread t but is not pinned to it; the schedule oracle tries to move it to thread k
    match t.toNat?, flags.toNat?, parsePolicy rest with
    | some t, some fl, (some pol, rest') =>
      let w := { st.w with cur := t, sched := [t, k] }
      let (err, w') := LoaderSpec.load { noNewPrivs := nnp == "1", flag := fl, policy := pol st.next } w
      ops k n rest' { w := { w' with sched := [] }, next := st.next + 1, out := st.out ++ [showErr err ++ showThreads w' (k + 2)] }
    | _, _, _ => none
  | n+1, "supported" :: t :: rest, st =>
    match t.toNat? with
    | some t =>
      let w := { st.w with cur := t }
      let (b, w') := LoaderSpec.supported w
      ops k n rest { st with w := w', out := st.out ++ [(if b then "true" else "false") ++ showThreads w' (k + 2)] }
    | none => none
  | _, _, _ => none

def handle (toks : List String) : String :=
  match toks with
  | priv :: k :: nops :: rest =>
    match k.toNat?, nops.toNat? with
    | some k, some n =>
      -- priv: bit 0 = privileged, bit 1 = seccomp(2) answers ENOSYS (an outer filter denies it / old kernel),
      --       bit 2 = prctl(PR_SET_NO_NEW_PRIVS) answers EINVAL,
      --       bits 3–5 = the errno of bit 1's refusal: 0 ENOSYS, 1 EPERM, 2 EACCES, 3 ENOMEM, 4 EAGAIN, 5 ESRCH, 6 EBUSY, 7 EINTR
      let pv := priv.toNat?.getD 0
      let w : World := { thr := fun _ => {}, live := List.range (k + 2), cur := 0, privileged := pv % 2 == 1,
                         seccompAvailable := pv / 2 % 2 == 0, nnpAvailable := pv / 4 % 2 == 0,
                         refusal := match pv / 8 % 8 with
                           | 1 => .eperm | 2 => .eacces | 3 => .enomem | 4 => .eagain | 5 => .esrch | 6 => .ebusy | 7 => .eintr | _ => .enosys }
      match ops k n rest { w := w, next := 100, out := [] } with
      | some st => " | ".intercalate st.out
      | none => "BAD-REQUEST"
    | _, _ => "BAD-REQUEST"
  | _ => "BAD-REQUEST"

end Driver.Loader
