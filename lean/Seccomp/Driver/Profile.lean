import Seccomp.Model.Profile
/-!
# Driver for the profiler's set pipeline (C18)

Request:  `F <arch> <nfound> (<num> <hexname>)* <nb> <hexvalue>* <na> <hexvalue>*`
  `found` = the sites in the order the disassembly lists them; every `<hexvalue>` is the raw value of
  one occurrence of `-b` (resp. `-allow`), hex-encoded UTF-8 (`-` = empty).
Reply:    `OK <n> <hexname>*` — the names the profiler must emit, in order — or `SKIP <why>`.
-/

namespace Driver.Profile

def hexDigit (n : Nat) : Char := if n < 10 then Char.ofNat (48 + n) else Char.ofNat (87 + n)

def hexOfString (s : String) : String :=
  if s.isEmpty then "-" else
  s.toUTF8.foldl (fun acc b => (acc.push (hexDigit (b.toNat / 16))).push (hexDigit (b.toNat % 16))) ""

def unhexDigit (c : Char) : Option Nat :=
  if '0' ≤ c ∧ c ≤ '9' then some (c.toNat - 48)
  else if 'a' ≤ c ∧ c ≤ 'f' then some (c.toNat - 87)
  else none

def bytesOfHex (s : String) : Option ByteArray :=
  if s = "-" then some ByteArray.empty else
  let rec go (cs : List Char) (acc : ByteArray) : Option ByteArray :=
    match cs with
    | [] => some acc
    | a :: b :: rest => do
      let x ← unhexDigit a
      let y ← unhexDigit b
      go rest (acc.push (UInt8.ofNat (x * 16 + y)))
    | _ => none
  go s.toList ByteArray.empty

def stringOfHex (s : String) : Option String := do
  let b ← bytesOfHex s
  String.fromUTF8? b

def takeN {α} (p : List String → Option (α × List String)) : Nat → List String → Option (List α × List String)
  | 0, ts => some ([], ts)
  | n+1, ts => do
    let (x, ts) ← p ts
    let (xs, ts) ← takeN p n ts
    pure (x :: xs, ts)

def counted {α} (p : List String → Option (α × List String)) : List String → Option (List α × List String)
  | [] => none
  | n :: ts => do
    let n ← n.toNat?
    takeN p n ts

def pSite : List String → Option ((Nat × String) × List String)
  | num :: name :: ts => do
    let n ← num.toNat?
    let s ← stringOfHex name
    pure ((n, s), ts)
  | _ => none

def pStr : List String → Option (String × List String)
  | v :: ts => do
    let s ← stringOfHex v
    pure (s, ts)
  | _ => none

def handle (table : String → Option (String → Option Nat)) (toks : List String) : String :=
  match toks with
  | arch :: rest =>
    match table arch with
    | none => "SKIP no-arch"
    | some lookup =>
      let r : Option String := do
        let (found, rest) ← counted pSite rest
        let (bvals, rest) ← counted pStr rest
        let (avals, rest) ← counted pStr rest
        if !rest.isEmpty then none else
        let names := Profile.profileNames found (Profile.parseFlag bvals) (Profile.parseFlag avals)
          (fun s => (lookup (hexOfString s)).isSome)
        pure (names.foldl (fun acc s => acc ++ " " ++ hexOfString s) s!"OK {names.length}")
      r.getD "SKIP not-utf8-or-malformed"
  | _ => "BAD-REQUEST"

end Driver.Profile
