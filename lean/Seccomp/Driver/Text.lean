import Seccomp.Model.Text
/-!
# Driver for the `text` stream (C13, C14)

Requests (after the verb `TXT`), byte strings travel hex-encoded (`-` = empty):
  `ua <hex>`   `Action.Unpack`      → `OK <action>` | `ERR <hex of the lower-cased argument>` (the text of the Go error)
  `uo <hex>`   `Operation.Unpack`   → `OK <hex of the operation>` | `ERR <hex lower-cased>`
  `as <n>`     `Action.String` / `MarshalText`       → `<hex>`
  `fs <n>`     `FilterFlag.String` / `MarshalText`   → `<hex>`
  `lo <hex>`   `strings.ToLower`    → `<hex>`
-/

namespace Driver.Text

def hexDigit (n : Nat) : Char := if n < 10 then Char.ofNat (48 + n) else Char.ofNat (87 + n)

def hexOfBytes (b : ByteArray) : String :=
  if b.size = 0 then "-" else
  b.foldl (fun acc x => (acc.push (hexDigit (x.toNat / 16))).push (hexDigit (x.toNat % 16))) ""

def hexOfString (s : String) : String := hexOfBytes s.toUTF8

def unhexDigit (c : Char) : Option Nat :=
  if '0' ≤ c ∧ c ≤ '9' then some (c.toNat - 48)
  else if 'a' ≤ c ∧ c ≤ 'f' then some (c.toNat - 87)
  else none

def bytesOfHex (s : String) : Option (List Nat) :=
  if s = "-" then some [] else
  let rec go (cs : List Char) (acc : List Nat) : Option (List Nat) :=
    match cs with
    | [] => some acc.reverse
    | a :: b :: rest => do
      let x ← unhexDigit a
      let y ← unhexDigit b
      go rest ((x * 16 + y) :: acc)
    | _ => none
  go s.toList []

/-- UTF-8 of a rune sequence (`strings.Builder.WriteRune`: surrogates and values above U+10FFFF
    would be written as U+FFFD) -/
def stringOfRunes (rs : List Nat) : String :=
  String.ofList (rs.map (fun r => if r < 0xD800 ∨ (0xDFFF < r ∧ r < 0x110000) then Char.ofNat r else Char.ofNat 0xFFFD))

def hexOfRunes (rs : List Nat) : String := hexOfString (stringOfRunes rs)

def handle (toks : List String) : String :=
  match toks with
  | ["ua", h] =>
    (match bytesOfHex h with
     | some bs =>
       let rs := Text.decodeAll bs
       (match Text.unpackActionRunes rs with
        | some a => s!"OK {a}"
        | none => s!"ERR {hexOfRunes (Text.lower rs)}")
     | none => "BAD-REQUEST")
  | ["uo", h] =>
    (match bytesOfHex h with
     | some bs =>
       let rs := Text.decodeAll bs
       (match Text.unpackOperationRunes rs with
        | some o => s!"OK {hexOfString o}"
        | none => s!"ERR {hexOfRunes (Text.lower rs)}")
     | none => "BAD-REQUEST")
  | ["as", n] =>
    (match n.toNat? with
     | some a => hexOfString (Text.actionStringWith Gen.actionNames (a % 4294967296))
     | none => "BAD-REQUEST")
  | ["fs", n] =>
    (match n.toNat? with
     | some f => hexOfString (Text.flagStringNow (f % 4294967296))
     | none => "BAD-REQUEST")
  | ["lo", h] =>
    (match bytesOfHex h with
     | some bs => hexOfRunes (Text.lower (Text.decodeAll bs))
     | none => "BAD-REQUEST")
  | _ => "BAD-REQUEST"

end Driver.Text
