import Seccomp.Model.Cache
/-!
# Driver for cache histories (C17): the hand-written protocol `CacheSpec.doObjdump` on concrete worlds

Request:  `K <nruns> (<variant> <schedule>)*`
  the history starts with an empty cache directory; `variant` ∈ 0..9 names the content of the
  binary (a different content has a different hash and a different listing);
  schedule := `ok` | `missing` | `fail:<j>` (the disassembler prints j chunks, exits non-zero)
            | `kill:<j>` (the profiler is killed while the disassembler has printed j chunks)
            | `fsize:<q>` (a write to the temporary file fails with EFBIG after q/12 of the bytes)
Reply:    one group per run, separated by ` | `:
  `<result> <cache> <log>`  result := `ok` | `err` | `dead`
                            cache  := `absent` | `complete:<variant>` | `other`   (the final cache path after the run)
                            log    := `hit` | `written` | `none`
-/

namespace Driver.Cache
open _root_.Cache

def hashOf (v : Nat) : Str := List.replicate 64 (48 + v)
def chunk (v c : Nat) : Str := [77, 48 + v, 48 + c % 10, 10]
def nchunks : Nat := 6
def listingOf (v : Nat) : Str := ((List.range nchunks).map (chunk v)).flatten
def binaryPath : Str := bytes "/work/bin/target"
def dumpPath : Str := bytes "/home/.seccomp-profiler/target-0123456789"

def baseEnv (v i : Nat) : Env :=
  { binary := binaryPath, dump := dumpPath, listing := listingOf v, tmpSuffix := [48 + i / 10, 48 + i % 10] }

def parseSchedule (s : String) : Option (String × Nat) :=
  match s.splitOn ":" with
  | ["ok"] => some ("ok", 0)
  | ["missing"] => some ("missing", 0)
  | ["fail", j] => j.toNat?.map (fun j => ("fail", j))
  | ["kill", j] => j.toNat?.map (fun j => ("kill", j))
  | ["fsize", q] => q.toNat?.map (fun q => ("fsize", q))
  | _ => none

def envFor (fs : FS) (v i : Nat) (kind : String) (j : Nat) : Env :=
  let e := baseEnv v i
  if kind = "missing" then { e with objdump := .missing }
  else if kind = "fail" then { e with objdump := .fails (((List.range j).map (chunk v)).flatten) }
  else if kind = "kill" then
    -- the step at which the disassembler runs, found on the uninterrupted run from the same state
    let t := (CacheSpec.doObjdump binaryPath (hashOf v) (World.start fs e)).2.trace
    match t.findIdx? (· == "cmdRun") with
    | some k => { e with crashAt := some (k + 1), early := fun _ => 65 + 4 * j }
    | none => e          -- a cache hit: the disassembler is never started, nothing to interrupt
  else if kind = "fsize" then
    -- a write(2) to the temporary file fails: run as an I/O fault at the Flush step (for what is
    -- compared — exit status, cache path, log line — the position of the failing write does not matter)
    let t := (CacheSpec.doObjdump binaryPath (hashOf v) (World.start fs e)).2.trace
    match t.findIdx? (· == "flush") with
    | some k => { e with fault := fun i => i == k, early := fun _ => 4096 * j }
    | none => e
  else e

def cacheState (fs : FS) : String :=
  match fs dumpPath with
  | none => "absent"
  | some c =>
    match (List.range 10).find? (fun v => c == hashOf v ++ bytes "\n" ++ listingOf v) with
    | some v => s!"complete:{v}"
    | none => "other"

def logState (log : List Str) : String :=
  if log.contains (bytes "Using cached objdump.") then "hit"
  else if log.any (fun l => (bytes "objdump written to").isPrefixOf l) then "written"
  else "none"

def runs : Nat → Nat → List String → FS → List String → Option (List String)
  | 0, _, [], _, out => some out.reverse
  | 0, _, _, _, _ => none
  | n+1, i, v :: s :: rest, fs, out =>
    match v.toNat?, parseSchedule s with
    | some v, some (kind, j) =>
      let env := envFor fs v i kind j
      let r := CacheSpec.doObjdump binaryPath (hashOf v) (World.start fs env)
      let res := if !r.2.alive then "dead" else if r.1.2 = .nil then "ok" else "err"
      runs n (i + 1) rest r.2.fs (s!"{res} {cacheState r.2.fs} {logState r.2.log}" :: out)
    | _, _ => none
  | _, _, _, _, _ => none

def handle (toks : List String) : String :=
  match toks with
  | n :: rest =>
    match n.toNat? with
    | some n =>
      match runs n 0 rest (fun _ => none) [] with
      | some out => " | ".intercalate out
      | none => "BAD-REQUEST"
    | none => "BAD-REQUEST"
  | _ => "BAD-REQUEST"

end Driver.Cache
