import Seccomp.Model.Disasm
import Seccomp.Gen.Tables
import Std.Data.HashMap
/-!
# Driver of the `disasm` stream (C16)

Request  `D <x86_64|i386> <failAfterLines | open | -> <hex of the file content>`
Reply    `OK n (num hexname hexcaller hexfunction hexlocation hexassembly)*` | `ERR` | `PANIC`

The tables `SyscallNumbers` are the regenerated `Gen.syscallsX86_64` / `Gen.syscalls386`, each put
into a hash map once (top-level constants are initialised once per process).
-/

namespace DisasmDriver
open Disasm

def hexDigit (n : Nat) : Char := if n < 10 then Char.ofNat (48 + n) else Char.ofNat (87 + n)

def hexOfBytes (b : Bytes) : String :=
  if b.isEmpty then "-" else
  b.foldl (fun acc x => (acc.push (hexDigit (x.toNat / 16))).push (hexDigit (x.toNat % 16))) ""

def unhexDigit (c : Char) : Option Nat :=
  if '0' ≤ c ∧ c ≤ '9' then some (c.toNat - 48)
  else if 'a' ≤ c ∧ c ≤ 'f' then some (c.toNat - 87)
  else none

def unhexAux : List Char → Bytes → Option Bytes
  | [], acc => some acc.reverse
  | a :: b :: rest, acc =>
    match unhexDigit a, unhexDigit b with
    | some x, some y => unhexAux rest (UInt8.ofNat (x * 16 + y) :: acc)
    | _, _ => none
  | _, _ => none

def unhex (s : String) : Option Bytes :=
  if s = "-" then some [] else unhexAux s.toList []

/-- a Go map literal cannot repeat a key, so every number occurs once -/
def mkTbl (l : List (Nat × String)) : Std.HashMap Nat String :=
  l.foldl (fun m (n, s) => m.insertIfNew n s) {}

def tblX86_64 : Std.HashMap Nat String := mkTbl Gen.syscallsX86_64
def tbl386 : Std.HashMap Nat String := mkTbl Gen.syscalls386

def renderSyscall (s : Syscall) : String :=
  s!" {s.num} {hexOfBytes s.name.toUTF8.toList} {hexOfBytes s.caller} {hexOfBytes s.function} {hexOfBytes s.location} {hexOfBytes s.assembly}"

def render : Outcome → String
  | .ok l => l.foldl (fun acc s => acc ++ renderSyscall s) s!"OK {l.length}"
  | .error => "ERR"
  | .panic => "PANIC"

def handle (toks : List String) : String :=
  match toks with
  | [arch, fail, hex] =>
    let cfg : Option (Parser × Std.HashMap Nat String) :=
      if arch = "x86_64" then some (x86_64Parser, tblX86_64)
      else if arch = "i386" then some (i386Parser, tbl386)
      else none
    let fl : Option (Option Nat) :=
      if fail = "-" then some none
      else if fail = "open" then some (some 0)      -- the path cannot be opened: nothing is read
      else fail.toNat?.map some
    match cfg, fl, unhex hex with
    | some (p, t), some f, some content => render (parse p (fun n => t.get? n) content f)
    | _, _, _ => "BAD-REQUEST"
  | _ => "BAD-REQUEST"

end DisasmDriver
