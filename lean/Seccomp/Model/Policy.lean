import Seccomp.Model.Lower
/-!
# `Policy.Assemble` from the Go API's point of view (filter.go)

Names are strings, operations are strings (the Go type `Operation` is a string, any value
can be written), actions and the default are raw 32-bit values.  The functions below
mirror, in order: `Policy.Validate`, the architecture lookup, `SyscallGroup.assemble`
(`toSyscallsWithConditions` with its ordered problem list, `ArgumentConditions.Validate`)
and then hand the resolved entries to `Model/Lower.lean`.

Every place where the Go code indexes a slice or asserts a type is either absent here
(the model has no partial operation) or guarded exactly as the Go code guards it; the
differential harness reports a Go panic as the reply `PANIC`, which the model never
produces.
-/

/-- `Condition` -/
structure Condition where
  arg : Nat          -- `Argument uint32`
  op : String        -- `Operation` (a Go string type)
  val : BitVec 64
deriving Repr, DecidableEq

/-- `NameWithConditions` -/
structure NameConds where
  name : String
  conds : List Condition
deriving Repr, DecidableEq

/-- `SyscallGroup` -/
structure Group where
  names : List String
  withConds : List NameConds
  action : Word
deriving Repr, DecidableEq

/-- `Policy` (exported fields) -/
structure Policy where
  default : Word
  groups : List Group
deriving Repr, DecidableEq

/-- `arch.Info` as far as the compiler uses it -/
structure ArchInfo where
  name : String
  id : Word
  mask : Nat
  lookup : String → Option Nat     -- `SyscallNames`

/-! ## constants (cross-checked against the regenerated `Gen.Consts` in `Proofs/C19.lean`) -/

def actKillThread : Word := 0x00000000#32
def actKillProcess : Word := 0x80000000#32
def actTrap : Word := 0x00030000#32
def actErrno : Word := 0x00050000#32
def actTrace : Word := 0x7ff00000#32
def actLog : Word := 0x7ffc0000#32
def actAllow : Word := 0x7fff0000#32
def errnoEPERM : Word := 0x00000001#32
def auditArchX86_64 : Word := 0xC000003E#32

/-- keys of `actionNames` -/
def namedActions : List Word :=
  [actKillThread, actKillProcess, actTrap, actErrno, actTrace, actLog, actAllow]

/-- `Program.Ret`: an `errno` action carries `EPERM`, everything else is returned verbatim -/
def enc (a : Word) : Word := if a = actErrno then a ||| errnoEPERM else a

/-- the eight operation names, `Operations` in filter.go -/
def opOfString (s : String) : Option Op :=
  if s = "Equal" then some .eq
  else if s = "NotEqual" then some .ne
  else if s = "GreaterThan" then some .gt
  else if s = "LessThan" then some .lt
  else if s = "GreaterOrEqual" then some .ge
  else if s = "LessOrEqual" then some .le
  else if s = "BitsSet" then some .set
  else if s = "BitsNotSet" then some .nset
  else none

/-- one line of the error text of `toSyscallsWithConditions` -/
inductive Problem where
  | duplicate (name : String)
  | unknown (name : String)
  | mixed (name : String)
  | argument (arg : Nat)
  | operation (op : String)
deriving Repr, DecidableEq

/-- error classes of `Policy.Assemble` -/
inductive CErr where
  | default                      -- invalid default_action value
  | empty                        -- syscalls must not be empty
  | arch                         -- unsupported arch
  | problems (ps : List Problem) -- the problems of the first defective group
  | asm (e : Err)                -- an error of `Program.Assemble`
deriving Repr, DecidableEq

/-- `ArgumentConditions.Validate` (after fix F4): per condition, index then operation -/
def validateConds : List Condition → List Problem
  | [] => []
  | c :: rest =>
    (if c.arg > 5 then [Problem.argument c.arg] else []) ++
    (if (opOfString c.op).isNone then [Problem.operation c.op] else []) ++
    validateConds rest

/-- resolved conditions (only used when `validateConds` found nothing) -/
def toCnds : List Condition → List Cnd
  | [] => []
  | c :: rest =>
    match opOfString c.op with
    | some op => { arg := c.arg, op := op, val := c.val } :: toCnds rest
    | none => toCnds rest

def Entry.num : Entry → Word
  | .uncond n => n
  | .cond n _ => n

/-- `getSyscall` + append of another condition list to the first entry with that number -/
def addList (num : Word) (cs : List Cnd) : List Entry → List Entry
  | [] => []
  | e :: rest =>
    if e.num = num then
      match e with
      | .uncond n => .uncond n :: rest
      | .cond n ls => .cond n (ls ++ [cs]) :: rest
    else e :: addList num cs rest

def ArchInfo.number (A : ArchInfo) (name : String) : Option Word :=
  (A.lookup name).map (fun n => BitVec.ofNat 32 (n ||| A.mask))

/-- first loop of `toSyscallsWithConditions` (over `Names`) -/
def resolveNames (A : ArchInfo) : List String → List Entry → List Problem → List Entry × List Problem
  | [], es, ps => (es, ps)
  | name :: rest, es, ps =>
    match A.number name with
    | some num =>
      if es.any (·.num == num) then resolveNames A rest es (ps ++ [.duplicate name])
      else resolveNames A rest (es ++ [.uncond num]) ps
    | none => resolveNames A rest es (ps ++ [.unknown name])

/-- second loop of `toSyscallsWithConditions` (over `NamesWithCondtions`) -/
def resolveConds (A : ArchInfo) : List NameConds → List Entry → List Problem → List Entry × List Problem
  | [], es, ps => (es, ps)
  | nc :: rest, es, ps =>
    match A.number nc.name with
    | some num =>
      let invalid := validateConds nc.conds
      if !invalid.isEmpty then resolveConds A rest es (ps ++ invalid)
      else
        match es.find? (·.num == num) with
        | none => resolveConds A rest (es ++ [.cond num [toCnds nc.conds]]) ps
        | some (.uncond _) => resolveConds A rest es (ps ++ [.mixed nc.name])
        | some (.cond _ _) => resolveConds A rest (addList num (toCnds nc.conds) es) ps
    | none => resolveConds A rest es (ps ++ [.unknown nc.name])

/-- `toSyscallsWithConditions` -/
def toEntries (A : ArchInfo) (g : Group) : Except (List Problem) (List Entry) :=
  let (es1, ps1) := resolveNames A g.names [] []
  let (es2, ps2) := resolveConds A g.withConds es1 ps1
  if ps2.isEmpty then .ok es2 else .error ps2

/-- `SyscallGroup.assemble` with the fall-through of fix F1 -/
def assembleGroup (A : ArchInfo) (ly : Layout) (g : Group) : Except CErr (List Instr) :=
  if g.names.isEmpty && g.withConds.isEmpty then .ok []
  else
    match toEntries A g with
    | .error ps => .error (.problems ps)
    | .ok ents =>
      match assemble (groupToks ly ents (enc g.action)) with
      | .error e => .error (.asm e)
      | .ok out => .ok out

def assembleGroups (A : ArchInfo) (ly : Layout) : List Group → Except CErr (List (List Instr))
  | [] => .ok []
  | g :: more =>
    match assembleGroup A ly g with
    | .error e => .error e
    | .ok out =>
      match assembleGroups A ly more with
      | .error e => .error e
      | .ok outs => .ok (out :: outs)

def ArchInfo.archI (A : ArchInfo) : ArchI := { id := A.id, x86 := A.id == auditArchX86_64 }

/-- `Policy.Assemble`.  `A = none` stands for "`arch.GetInfo` reported an error". -/
def assemblePolicy (A : Option ArchInfo) (ly : Layout) (p : Policy) : Except CErr (List Instr) :=
  if !namedActions.contains p.default then .error .default
  else if p.groups.isEmpty then .error .empty
  else
    match A with
    | none => .error .arch
    | some A =>
      match assembleGroups A ly p.groups with
      | .error e => .error e
      | .ok outs => .ok (policyProg A.archI (outs.flatten ++ [.ret (enc p.default)]))

/-! ## the two byte orders of `seccomp_data` (`LdHi` / `LdLo` in assembler.go) -/

inductive Endian where | little | big
deriving DecidableEq, Repr

def Layout.ofEndian : Endian → Layout
  | .little => { hiOff := fun i => 16 + 8 * i + 4, loOff := fun i => 16 + 8 * i }
  | .big    => { hiOff := fun i => 16 + 8 * i,     loOff := fun i => 16 + 8 * i + 4 }
