import Seccomp.Model.Bpf
/-!
# Label programs as token streams

One token per call of the public builder (`assembler.go`): `SetLabel l` ↦ `lab l`, every
instruction ↦ `ins`, `JmpIfTrue c k l` ↦ `ins (jif c k l fresh); lab fresh`.  A builder
call sequence *is* the label program; streams compose by `++`.  `runT` is the label-level
meaning: markers are skipped, a conditional jump continues at the nearest marker of its
label ahead (`contAt`), a raw `ja n` skips `n` instructions.
-/

inductive LInstr (L : Type) where
  | ld (off : Nat) | ret (k : Word) | ja (n : Nat) | jif (c : Cond) (k : Word) (tl fl : L)
deriving Repr

inductive Tok (L : Type) where
  | lab (l : L) | ins (i : LInstr L)
deriving Repr

variable {L : Type} [DecidableEq L]

/-- number of tokens to drop from `p` to stand on the marker `lab l` -/
def findLab (l : L) : List (Tok L) → Option Nat
  | [] => none
  | .lab l' :: rest => if l' = l then some 0 else (findLab l rest).map (· + 1)
  | .ins _ :: rest => (findLab l rest).map (· + 1)

/-- drop `n` instructions (and the markers before them) -/
def dropIns : Nat → List (Tok L) → List (Tok L)
  | 0, p => p
  | _+1, [] => []
  | n+1, .lab _ :: rest => dropIns (n+1) rest
  | n+1, .ins _ :: rest => dropIns n rest

omit [DecidableEq L] in
theorem dropIns_length (n : Nat) (p : List (Tok L)) : (dropIns n p).length ≤ p.length := by
  induction p generalizing n with
  | nil => cases n <;> simp [dropIns]
  | cons t rest ih =>
    cases n with
    | zero => simp [dropIns]
    | succ n => cases t <;> simp only [dropIns, List.length_cons] <;> have := ih n <;> have := ih (n+1) <;> omega

def runT (w : Nat → Word) : List (Tok L) → Word → Result
  | [], a => .exit a
  | .lab _ :: rest, a => runT w rest a
  | .ins (.ld off) :: rest, _ => runT w rest (w off)
  | .ins (.ret k) :: _, _ => .ret k
  | .ins (.ja n) :: rest, a => runT w (dropIns n rest) a
  | .ins (.jif c k tl fl) :: rest, a =>
    match findLab (if c.eval a k then tl else fl) rest with
    | none => .stuck
    | some i => runT w (rest.drop i) a
termination_by l => l.length
decreasing_by
  all_goals simp_wf
  · have := dropIns_length n rest; omega
  · omega

/-- continue at marker `l` somewhere in `p` -/
def contAt (w : Nat → Word) (l : L) (p : List (Tok L)) (a : Word) : Result :=
  match findLab l p with
  | none => .stuck
  | some i => runT w (p.drop i) a

@[simp] theorem runT_lab (w) (l : L) (rest a) : runT w (.lab l :: rest) a = runT w rest a := by rw [runT]
@[simp] theorem runT_ld (w) (off) (rest : List (Tok L)) (a) : runT w (.ins (.ld off) :: rest) a = runT w rest (w off) := by rw [runT]
@[simp] theorem runT_ret (w) (k) (rest : List (Tok L)) (a) : runT w (.ins (.ret k) :: rest) a = .ret k := by rw [runT]
@[simp] theorem runT_nil (w) (a) : runT (L := L) w [] a = .exit a := by rw [runT]
theorem runT_ja (w) (n) (rest : List (Tok L)) (a) : runT w (.ins (.ja n) :: rest) a = runT w (dropIns n rest) a := by rw [runT]
theorem runT_jif (w) (c k) (tl fl : L) (rest a) :
    runT w (.ins (.jif c k tl fl) :: rest) a = contAt w (if c.eval a k then tl else fl) rest a := by
  rw [runT]; rfl

def labelsOf : List (Tok L) → List L
  | [] => []
  | .lab l :: rest => l :: labelsOf rest
  | .ins _ :: rest => labelsOf rest

@[simp] theorem labelsOf_append (p q : List (Tok L)) : labelsOf (p ++ q) = labelsOf p ++ labelsOf q := by
  induction p with
  | nil => rfl
  | cons t rest ih => cases t <;> simp [labelsOf, ih]

theorem findLab_append_not_mem (l : L) (p q : List (Tok L)) (h : l ∉ labelsOf p) :
    findLab l (p ++ q) = (findLab l q).map (· + p.length) := by
  induction p with
  | nil => simp
  | cons t rest ih =>
    cases t with
    | lab l' =>
      simp only [labelsOf, List.mem_cons, not_or] at h
      have hne : ¬ l' = l := fun e => h.1 e.symm
      simp only [List.cons_append, findLab, hne, if_false, ih h.2, List.length_cons]
      cases findLab l q <;> simp <;> omega
    | ins i =>
      simp only [labelsOf] at h
      simp only [List.cons_append, findLab, ih h, List.length_cons]
      cases findLab l q <;> simp <;> omega

/-- jumping over a prefix that does not place the label -/
theorem contAt_append_not_mem (w) (l : L) (p q : List (Tok L)) (a) (h : l ∉ labelsOf p) :
    contAt w l (p ++ q) a = contAt w l q a := by
  unfold contAt
  rw [findLab_append_not_mem l p q h]
  cases findLab l q with
  | none => rfl
  | some i =>
    simp only [Option.map_some]
    have : (p ++ q).drop (i + p.length) = q.drop i := by
      rw [Nat.add_comm, ← List.drop_drop]; simp
    rw [this]

@[simp] theorem contAt_lab_self (w) (l : L) (q : List (Tok L)) (a) : contAt w l (.lab l :: q) a = runT w q a := by
  simp [contAt, findLab]

theorem contAt_cons_lab_ne (w) (l l' : L) (q : List (Tok L)) (a) (h : l' ≠ l) :
    contAt w l (.lab l' :: q) a = contAt w l q a := by
  have := contAt_append_not_mem w l [.lab l'] q a (by simp [labelsOf]; exact fun e => h e.symm)
  simpa using this

theorem contAt_cons_ins (w) (l : L) (i : LInstr L) (q : List (Tok L)) (a) :
    contAt w l (.ins i :: q) a = contAt w l q a := by
  have := contAt_append_not_mem w l [.ins i] q a (by simp [labelsOf])
  simpa using this
