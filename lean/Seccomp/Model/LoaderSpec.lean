import Seccomp.Model.Kernel
/-!
# What `LoadFilter` and `Supported` must do (hand-written reference)

This is the *specification side* of the live-kernel correspondence: the harness compares what the
real `LoadFilter` does on the running kernel with `LoaderSpec.load` run on the abstract kernel.  It
does not depend on anything generated.  `Proofs/Lemmas/LoadFilterLemmas.lean` proves that the
regenerated rendering of the source (`Gen.loadFilter`) agrees with it for all inputs.
-/

/-- what a caller can observe of an error value -/
inductive ErrClass where
  | nil | errno (e : Nat) | other
deriving Repr, DecidableEq

/-- `errors.As(err, &syscall.Errno)` through any number of `%w` wrappers -/
def GoErr.cls : GoErr → ErrClass
  | .nil => .nil
  | .errno e => .errno e
  | .wrapped _ inner =>
    match inner.cls with
    | .errno e => .errno e
    | _ => .other

namespace LoaderSpec

def load (filter : Filter) (w : World) : ErrClass × World :=
  match filter.policy with
  | .assembleFails => (.other, w)
  | .encodeFails => (.other, w)
  | .prog p =>
    -- no_new_privs first, on a thread the goroutine cannot leave until the filter is installed
    let r0 := sysPrctl PR_SET_NO_NEW_PRIVS 1 0 0 0 (lockOSThread w)
    if filter.noNewPrivs = true ∧ r0.2.1 ≠ 0 then
      (.errno r0.2.1, unlockOSThread r0.2.2)      -- the bit cannot be set: give up before touching seccomp
    else
    let w1 := if filter.noNewPrivs = true then r0.2.2 else w
    let r := sysSeccomp SECCOMP_SET_MODE_FILTER filter.flag (mkFprog (.prog p)) w1
    let w3 := if filter.noNewPrivs = true then unlockOSThread r.2.2 else r.2.2
    if r.2.1 ≠ 0 then (.errno r.2.1, w3)          -- the kernel declined with an errno
    else if filter.flag &&& FLAG_TSYNC ≠ 0 ∧ r.1 ≠ 0 then (.other, w3)   -- thread-sync refused: positive return value
                                                  -- (without thread-sync a positive value is a listener descriptor)
    else (.nil, w3)

def supported (w : World) : Bool × World :=
  let r := sysSeccomp SECCOMP_SET_MODE_STRICT 1 none w
  (r.2.1 == EINVAL, r.2.2)

end LoaderSpec
