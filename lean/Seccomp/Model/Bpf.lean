/-!
# Classic BPF, the subset the compiler emits

`Instr` is exactly what `Policy.Assemble` can emit: `LoadAbsolute{Size: 4}`, `JumpIf`,
`Jump`, `RetConstant`.  The semantics is in *suffix style*: the program is the list of
instructions still ahead, a jump with skip `n` continues with `rest.drop n`.  `w` is the
word view of the 64-byte `seccomp_data` record (`w off` = the 32-bit word at byte offset
`off`).  Leaving through the end is `exit a` (this is how one compiled group hands over
to the next one); a whole filter never does that (theorem `compile_closed`).
-/

abbrev Word := BitVec 32

/-- `bpf.JumpTest` -/
inductive Cond where | eq | ne | gt | lt | ge | le | set | nset
deriving DecidableEq, Repr

/-- meaning of a conditional jump test on accumulator `a` and constant `k` (unsigned) -/
def Cond.eval (c : Cond) (a k : Word) : Bool :=
  match c with
  | .eq => a == k | .ne => a != k
  | .gt => k.ult a | .lt => a.ult k
  | .ge => k.ule a | .le => a.ule k
  | .set => (a &&& k) != 0#32 | .nset => (a &&& k) == 0#32

/-- outcome of running (part of) a filter: a return value, leaving through the end with
    accumulator `a`, or (label level only) a jump to a label that is not placed ahead -/
inductive Result where
  | ret (k : Word) | exit (a : Word) | stuck
deriving DecidableEq, Repr

inductive Instr where
  | ld (off : Nat) | jif (c : Cond) (k : Word) (jt jf : Nat) | ja (n : Nat) | ret (k : Word)
deriving DecidableEq, Repr

/-- concrete semantics, suffix style -/
def run (w : Nat → Word) : List Instr → Word → Result
  | [], a => .exit a
  | .ld off :: rest, _ => run w rest (w off)
  | .ret k :: _, _ => .ret k
  | .ja n :: rest, a => run w (rest.drop n) a
  | .jif c k jt jf :: rest, a => run w (rest.drop (if c.eval a k then jt else jf)) a
termination_by l => l.length
decreasing_by all_goals simp_wf <;> (try simp [List.length_drop]) <;> omega

theorem run_nil (w a) : run w [] a = .exit a := by rw [run]
theorem run_ld (w off rest a) : run w (.ld off :: rest) a = run w rest (w off) := by rw [run]
theorem run_ret (w k rest a) : run w (.ret k :: rest) a = .ret k := by rw [run]
theorem run_ja (w n rest a) : run w (.ja n :: rest) a = run w (rest.drop n) a := by rw [run]
theorem run_jif (w c k jt jf rest a) :
    run w (.jif c k jt jf :: rest) a = run w (rest.drop (if c.eval a k then jt else jf)) a := by rw [run]

/-- sequencing of results: continue only when the first part left through its end -/
def Result.andThen (r : Result) (f : Word → Result) : Result :=
  match r with
  | .ret k => .ret k
  | .exit a => f a
  | .stuck => .stuck
