import Seccomp.Model.Tok
/-!
# `Program.Assemble` (assembler.go): label resolution from the end

Mirror of the Go code: the program is laid out from its last instruction to its first.
`out` is the part already laid out (in program order, i.e. Go's reversed `out`),
`dest l = d` says that the closest destination for `l` is the suffix of `out` of length
`d`.  A conditional jump first makes sure (three `bridge` steps: false, true, false) that
both destinations are within 255 instructions, by putting a copy of a destination `ret`
or a `ja` onto the destination directly behind the jump.
A label placed after the last instruction is never registered (Go: `labelsAt[len]` is
not visited), so a jump to it is reported as `backward`.
-/

variable {L : Type} [DecidableEq L]

structure St (L : Type) where
  out : List Instr
  dest : List (L × Nat)

def St.get (s : St L) (l : L) : Option Nat := (s.dest.find? (·.1 == l)).map (·.2)

inductive Err where | backward | useless
deriving Repr, DecidableEq

/-- make sure `l` has a destination within reach of a jump placed in front of `s.out` -/
def bridge (s : St L) (l : L) : Except Err (St L) :=
  match s.get l with
  | none => .error .backward
  | some d =>
    if s.out.length - d ≤ 255 then .ok s
    else
      let b := match (s.out.drop (s.out.length - d)).head? with
        | some (.ret k) => Instr.ret k
        | _ => Instr.ja (s.out.length - d)
      .ok { out := b :: s.out, dest := (l, s.out.length + 1) :: s.dest }

def stepTok (t : Tok L) (s : St L) : Except Err (St L) :=
  match t with
  | .lab l => if s.out.length = 0 then .ok s else .ok { s with dest := (l, s.out.length) :: s.dest }
  | .ins (.ld off) => .ok { s with out := .ld off :: s.out }
  | .ins (.ret k) => .ok { s with out := .ret k :: s.out }
  | .ins (.ja n) => .ok { s with out := .ja n :: s.out }
  | .ins (.jif c k tl fl) =>
    match bridge s fl with
    | .error e => .error e
    | .ok s1 =>
      match bridge s1 tl with
      | .error e => .error e
      | .ok s2 =>
        match bridge s2 fl with
        | .error e => .error e
        | .ok s3 =>
          match s3.get tl, s3.get fl with
          | some dt, some df =>
            let jt := s3.out.length - dt
            let jf := s3.out.length - df
            if jt = 0 ∧ jf = 0 then .error .useless
            else .ok { s3 with out := .jif c k jt jf :: s3.out }
          | _, _ => .error .backward

def asmT : List (Tok L) → Except Err (St L)
  | [] => .ok ⟨[], []⟩
  | t :: rest =>
    match asmT rest with
    | .error e => .error e
    | .ok s => stepTok t s

def assemble (p : List (Tok L)) : Except Err (List Instr) := (asmT p).map (·.out)
