import Seccomp.Gen.Tables
/-!
# Model of `arch/info.go`: `invert`, the lookups and `GetInfo` (property C12)

Core Lean only, total functions.

## Go maps
A `map[int]string` composite literal (`syscallsX86_64 = map[int]string{ 0: "read", … }`) is modelled
by the list of its entries in source order (`Table`); the Go compiler rejects duplicate constant
keys, the property theorems nevertheless prove the numbers distinct.  A `map[string]int` is modelled
by the function `String → Option Nat` it denotes.

`invert` ranges over the input map and stores `out[v] = k`.  Go leaves the iteration order of a map
unspecified (and randomises it per `range` statement), so the model takes the order as a
**parameter**: a list `order` that is a permutation of the entries (`List.Perm order table`);
`invert order` replays the stores in that order, later stores overwriting earlier ones.

## `GetInfo`
```go
if name == "" { name = runtime.GOARCH } else { name = strings.ToLower(name) }
arch, found := arches[name]
if !found || len(arch.SyscallNames) == 0 { return nil, fmt.Errorf("unsupported arch: %v", name) }
return arch, nil
```
`runtime.GOARCH` is the parameter `goarch`.  `getInfo` below is the hand-written reference (it is what
the correspondence stream compares the compiled `GetInfo` with); the function body is also
*regenerated* from the source on every run (`Gen.getInfoSkel` in `Gen/GetInfo.lean`, a rendering of
its statements over the primitives at the end of this file, with Go's short-circuit evaluation and a
nil dereference as an explicit outcome), and `C12.getinfo_tie` proves the two equal for every
`GOARCH` and every name.

### Lower-casing
`strings.ToLower` maps every rune through `unicode.ToLower`.  All keys of `arches` are over the
alphabet `[a-z0-9_]`.  `lowerChar` is ASCII lower-casing plus the only two non-ASCII runes whose
simple lower-case mapping is an ASCII character: U+0130 (İ) ↦ `i` and U+212A (KELVIN SIGN) ↦ `k`
(no key contains `k`, several contain `i`).  Every other non-ASCII rune lower-cases to a non-ASCII
rune, so it can never produce a key; the model leaves such runes unchanged, which preserves "is not
a key".  That `unicode.ToLower r < 0x80 → r < 0x80 ∨ r = 0x130 ∨ r = 0x212A` for every rune of the Go
toolchain in use is checked exhaustively (all 0x110000 code points) by the `tables` correspondence
stream, which also compares `GetInfo` on spellings containing these runes.  A Lean `String` is valid
UTF-8; invalid byte sequences (which Go maps to U+FFFD, not a key character) are exercised by the
stream only.
-/

namespace Arch

abbrev Table := List (Nat × String)

/-- a Go `map[string]int` as the partial function it denotes -/
abbrev NameMap := String → Option Nat

def NameMap.empty : NameMap := fun _ => none

/-- `m[k] = v` -/
def NameMap.set (m : NameMap) (k : String) (v : Nat) : NameMap :=
  fun x => if x = k then some v else m x

/-- `invert`, with the iteration order of `for k, v := range in` made explicit -/
def invert (order : Table) : NameMap :=
  order.foldl (fun out kv => out.set kv.2 kv.1) NameMap.empty

/-- `SyscallNumbers[nr]` on the literal: first entry with that key (keys are distinct) -/
def nrToName (t : Table) (nr : Nat) : Option String :=
  (t.find? (fun p => p.1 == nr)).map (·.2)

/-- the name → number lookup every iteration order yields when names are distinct
    (`C12.invert_deterministic`): first entry with that name -/
def nameToNr (t : Table) (name : String) : Option Nat :=
  (t.find? (fun p => p.2 == name)).map (·.1)

/-! ### name codes -/

/-- little-endian base-256 code with a leading 1: injective on byte lists -/
def encBytes : List UInt8 → Nat
  | [] => 1
  | c :: cs => encBytes cs * 256 + c.toNat

/-- the Nat code of a name (its UTF-8 bytes) -/
def enc (s : String) : Nat := encBytes s.toUTF8.data.toList

/-! ### GetInfo -/

def lowerChar (c : Char) : Char :=
  if c = Char.ofNat 0x130 then 'i'
  else if c = Char.ofNat 0x212A then 'k'
  else c.toLower

/-- the model of `strings.ToLower` (see the header) -/
def lower (s : String) : String := String.ofList (s.toList.map lowerChar)

def tableOf (n : String) : Table :=
  if n = "syscallsARM" then Gen.syscallsARM
  else if n = "syscallsAARCH64" then Gen.syscallsAARCH64
  else if n = "syscalls386" then Gen.syscalls386
  else if n = "syscallsX32" then Gen.syscallsX32
  else if n = "syscallsX86_64" then Gen.syscallsX86_64
  else []

/-- `len(arch.SyscallNames) == 0` for a row: `SyscallNames` is `invert(<names>)` (or absent = nil);
    an inverted map is empty iff the literal is (`C12.invert_empty_iff`) -/
def namesEmpty (r : Gen.ArchRow) : Bool := (tableOf r.names).isEmpty

def rowOfVar (v : String) : Option Gen.ArchRow := Gen.archRows.find? (fun r => r.var == v)

inductive Err where
  | unsupported (name : String)
deriving Repr, DecidableEq

deriving instance DecidableEq for Except

/-- `arches[key]` followed by the guard `!found || len(arch.SyscallNames) == 0` -/
def resolve (key : String) : Except Err Gen.ArchRow :=
  match Gen.arches.lookup key with
  | none => .error (.unsupported key)
  | some v =>
    match rowOfVar v with
    | none => .error (.unsupported key)      -- a value that is not a declared `*Info` does not compile
    | some r => if namesEmpty r then .error (.unsupported key) else .ok r

def getInfo (goarch name : String) : Except Err Gen.ArchRow :=
  if name = "" then resolve goarch
  else resolve (lower name)

/-! ### primitives of the regenerated rendering of `GetInfo` (`Gen/GetInfo.lean`)

A `*Info` value is `Option Gen.ArchRow` (`none` = nil).  A condition evaluates to `Option Bool`:
`none` is a run-time panic (a nil dereference); `&&`, `||` short-circuit as in Go. -/

/-- outcome of the rendered function -/
inductive Res where
  | ok (r : Option Gen.ArchRow)        -- `return r, nil`
  | err (e : Err)                      -- `return nil, fmt.Errorf("unsupported arch: %v", key)`
  | panic                              -- nil pointer dereference
  | opaque (what : String)             -- a statement or expression outside the translated subset
deriving Repr, DecidableEq

/-- `v, found := arches[key]` -/
def lookupArch (key : String) : Option Gen.ArchRow × Bool :=
  match Gen.arches.lookup key with
  | none => (none, false)
  | some v => (rowOfVar v, true)

/-- `len(a.SyscallNames)`; `none` if `a` is nil -/
def lenNames (a : Option Gen.ArchRow) : Option Nat := a.map (fun r => (tableOf r.names).length)
/-- `len(a.SyscallNumbers)` -/
def lenNumbers (a : Option Gen.ArchRow) : Option Nat := a.map (fun r => (tableOf r.table).length)

def orS (a b : Option Bool) : Option Bool :=
  match a with | none => none | some true => some true | some false => b
def andS (a b : Option Bool) : Option Bool :=
  match a with | none => none | some false => some false | some true => b
def notS (a : Option Bool) : Option Bool := a.map (!·)
/-- comparison of two integer expressions (either may panic) -/
def cmpS (f : Nat → Nat → Bool) (a b : Option Nat) : Option Bool :=
  match a, b with | some x, some y => some (f x y) | _, _ => none
/-- `if c { t } else { e }` -/
def ite3 (c : Option Bool) (t e : Res) : Res :=
  match c with | none => .panic | some true => t | some false => e

/-- the reference answer in the rendering's result type -/
def toRes : Except Err Gen.ArchRow → Res
  | .ok r => .ok (some r)
  | .error e => .err e

end Arch
