import Seccomp.Model.Spec
/-!
# Failing-input search for the compiler properties (C01–C07)

Not a proof and not part of any theorem: when the correspondence check finds that the
implementation's output differs from the model's, this search runs the *implementation's*
instruction list (`run`) against the specification (`Spec.decision`) on a partition of
events derived from the policy and from the program itself, and reports the first event
on which they disagree.  That event is the replay of the VIOLATION line.
-/

namespace Oracle

def dedupNat (xs : List Nat) : List Nat :=
  xs.foldl (fun acc x => if acc.contains x then acc else acc ++ [x]) []

def two32 : Nat := 4294967296
def two64 : Nat := 18446744073709551616

/-- constants compared anywhere in the program (they are interesting values for every word) -/
def progConsts (prog : List Instr) : List Nat :=
  prog.foldl (fun acc i => match i with
    | .jif _ k _ _ => k.toNat :: acc
    | _ => acc) []

def policyNumbers (A : ArchInfo) (p : Policy) : List Nat :=
  p.groups.foldl (fun acc g =>
    let a1 := g.names.foldl (fun acc n => match A.number n with | some w => w.toNat :: acc | none => acc) acc
    g.withConds.foldl (fun acc nc => match A.number nc.name with | some w => w.toNat :: acc | none => acc) a1) []

def policyConds (p : Policy) : List Condition :=
  p.groups.foldl (fun acc g => g.withConds.foldl (fun acc nc => acc ++ nc.conds) acc) []

def around (v m : Nat) : List Nat := [v % m, (v + 1) % m, (v + m - 1) % m]

/-- a value that satisfies the condition if one exists near the operand -/
def satisfying (c : Condition) : Nat :=
  let v := c.val.toNat
  match opOfString c.op with
  | some .eq => v | some .ne => (v + 1) % two64 | some .gt => (v + 1) % two64
  | some .ge => v | some .lt => (v + two64 - 1) % two64 | some .le => v
  | some .set => v | some .nset => (two64 - 1 - v)
  | none => v

def setArg (base : List Nat) (i v : Nat) : List Nat := base.set i v

def mkEvent (nr arch : Nat) (args : List Nat) : Event :=
  { nr := BitVec.ofNat 32 nr, arch := BitVec.ofNat 32 arch, ip := 0,
    args := fun i => BitVec.ofNat 64 (args.getD i 0) }

def renderEvent (nr arch : Nat) (args : List Nat) : String :=
  args.foldl (fun acc a => acc ++ " " ++ toString a) s!"{nr} {arch}"

def resultStr : Result → String
  | .ret k => s!"ret:{k.toNat}"
  | .exit a => s!"exit:{a.toNat}"
  | .stuck => "stuck"

/-- the event partition derived from a policy and from the constants of a program:
    architecture words, syscall numbers, base argument vectors, candidate argument values -/
def partition (A : ArchInfo) (p : Policy) (consts : List Nat) (plen : Nat) :
    List Nat × List Nat × List (List Nat) × List Nat :=
  let allNums := policyNumbers A p
  -- large name lists: first, last and evenly spaced numbers are enough for the partition
  let nums := if allNums.length ≤ 30 then allNums else
    allNums.take 8 ++ (allNums.drop (allNums.length - 8)) ++
      (List.range 12).map (fun i => allNums.getD (i * allNums.length / 12) 0)
  let conds := policyConds p
  let halves := conds.foldl (fun acc c => (c.val.toNat % two32) :: (c.val.toNat / two32) :: acc) []
  let nrs := dedupNat ((nums.foldl (fun acc n => around n two32 ++ acc) []) ++
      [0, 1, two32 - 1, 0x3fffffff, 0x40000000, 0x40000001, 0x7fffffff, 0x80000000, 0xbfffffff, 0xc0000000] ++
      (nums.take 4).map (fun n => (n ||| 0x40000000) % two32) ++ (halves.take 8) ++ (consts.take 8))
  let arches := dedupNat [A.id.toNat, 0xC000003E, 0x40000003, 0, two32 - 1, (A.id.toNat + 1) % two32]
  -- candidate values for an argument
  let cands := dedupNat ((conds.foldl (fun acc c =>
      let v := c.val.toNat
      around v two64 ++ [v % two32, (v / two32) * two32, (v % two32) * two32 + v / two32,
        two64 - 1 - v, satisfying c,
        -- crossed halves: one half on one side of the operand's, the other half on the other side
        (v % two32 + 1) % two32, (v / two32) * two32 + (two32 - 1),
        ((v / two32 + two32 - 1) % two32) * two32 + (two32 - 1), ((v / two32 + 1) % two32) * two32,
        ((v / two32 + two32 - 1) % two32) * two32 + (v % two32 + 1) % two32,
        ((v / two32 + 1) % two32) * two32 + (v % two32 + two32 - 1) % two32] ++ acc) []) ++
      [0, 1, two32 - 1, two32, two32 + 1, two64 - 1] ++ (nums.take 12) ++ ((allNums.reverse).take 6) ++
      (nums.take 8).map (fun n => n * two32) ++ (nums.take 6).map (fun n => n * two32 + n) ++ (consts.take 6) ++ (consts.take 6).map (· * two32))
  let cands := cands.take (if plen > 300 then 14 else if plen > 100 then 24 else 48)
  -- base vectors: zeros, ones, and one per condition list that tries to satisfy it
  let lists := p.groups.foldl (fun acc g => g.withConds.foldl (fun acc nc => nc.conds :: acc) acc) []
  let bases := [List.replicate 6 0, List.replicate 6 (two64 - 1)] ++
    (lists.take (if plen > 300 then 5 else 12)).map (fun l =>
      -- a vector that tries to satisfy the whole list: per argument the value of an `Equal` condition if
      -- there is one (it is the only value that can), else a value satisfying the last condition on it
      let b1 := l.foldl (fun b c => setArg b c.arg (satisfying c)) (List.replicate 6 0)
      l.foldl (fun b c => if opOfString c.op = some .eq then setArg b c.arg c.val.toNat else b) b1)
  (arches, nrs, bases, cands)

/-- argument vectors tried for one architecture word -/
def vectors (A : ArchInfo) (arch : Nat) (bases : List (List Nat)) (cands : List Nat) : List (List Nat) :=
  -- foreign architectures: a handful of argument vectors is enough
  if arch ≠ A.id.toNat then bases.take 3 else
    bases ++ (bases.foldl (fun acc b =>
      (List.range 6).foldl (fun acc i => cands.foldl (fun acc c => setArg b i c :: acc) acc) acc) [])

/-- first event of the partition on which `prog` and the specification disagree -/
def check (A : ArchInfo) (e : Endian) (p : Policy) (prog : List Instr) : String := Id.run do
  let (arches, nrs, bases, cands) := partition A p (progConsts prog) prog.length
  let mut n := 0
  for arch in arches do
    for nr in nrs do
      for args in vectors A arch bases cands do
        let ev := mkEvent nr arch args
        let want := Spec.decision A p ev
        let got := run (words e ev) prog 0#32
        n := n + 1
        if got ≠ .ret want then
          return s!"CEX {renderEvent nr arch args} expected ret:{want.toNat} got {resultStr got}"
  return s!"AGREE {n}"

/-- The same partition with the specification's decision for each event, for a program the
    model's four instruction kinds cannot express (the harness then evaluates that program with
    a reference interpreter of classic BPF).  At most `limit` events. -/
def expectations (A : ArchInfo) (p : Policy) (consts : List Nat) (plen limit : Nat) : String := Id.run do
  let (arches, nrs, bases, cands) := partition A p consts plen
  let mut n := 0
  let mut out := ""
  for arch in arches do
    for nr in nrs do
      for args in vectors A arch bases cands do
        if n < limit then
          let want := Spec.decision A p (mkEvent nr arch args)
          out := out ++ s!" {renderEvent nr arch args} {want.toNat}"
          n := n + 1
  return s!"EV {n}{out}"

end Oracle

namespace Oracle

/-- offsets loaded and constants compared by a label program -/
def tokFacts {L : Type} (toks : List (Tok L)) : List Nat × List Nat :=
  toks.foldl (fun (acc : List Nat × List Nat) t => match t with
    | .ins (.ld off) => (if acc.1.contains off then acc.1 else off :: acc.1, acc.2)
    | .ins (.jif _ k _ _) => (acc.1, if acc.2.contains k.toNat then acc.2 else k.toNat :: acc.2)
    | _ => acc) ([], [])

/-- failing-input search for C06: the implementation's instruction list against the label-level meaning
    of the builder call sequence, on word assignments built from the compared constants -/
def checkBuilder {L : Type} [DecidableEq L] (toks : List (Tok L)) (prog : List Instr) : String := Id.run do
  let (offs, consts) := tokFacts toks
  let vals := dedupNat ((consts.take 24).foldl (fun acc k => around k two32 ++ acc) [] ++ [0, 1, two32 - 1, 0x7fffffff, 0x80000000])
  let mut n := 0
  -- every word holds the same value
  for v in vals do
    let w : Nat → Word := fun _ => BitVec.ofNat 32 v
    n := n + 1
    let want := runT w toks 0#32
    let got := run w prog 0#32
    if want ≠ got then
      return s!"CEX all-words={v} label-program {resultStr want} assembled {resultStr got}"
  -- one offset differs from the others
  for o in offs.take 8 do
    for v in vals.take 16 do
      for u in vals.take 6 do
        let w : Nat → Word := fun off => if off = o then BitVec.ofNat 32 v else BitVec.ofNat 32 u
        n := n + 1
        let want := runT w toks 0#32
        let got := run w prog 0#32
        if want ≠ got then
          return s!"CEX word[{o}]={v} other-words={u} label-program {resultStr want} assembled {resultStr got}"
  return s!"AGREE {n}"

end Oracle
