/-!
# The disassembly parser of the profiler (cmd/seccomp-profiler/disasm/disasm.go)

An executable model of `ExtractSyscalls` / `parser.Parse` / `parseX86_64` / `findSyscallNum` /
`lastInstruction` / `isSyscallFunction` / `functionField`, working on the *content of the file*
(a byte string) plus an optional read failure.

Go strings are byte strings (`line[5:]` may cut a UTF-8 sequence, the file may hold any bytes), so
the model works on `List UInt8`.  The library functions the parser relies on are transcribed
directly, with the behaviour measured in DESIGN.md, Appendix A:

* `bufio.Scanner` with `ScanLines` and the default 64 KiB buffer (`rawLines`, `scan`),
* `strings.HasPrefix`, `strings.Contains`, `strings.Fields`, `strings.Join`,
* the two regular expressions, with Go's leftmost-first / greedy meaning (`Regex.find`),
* `strconv.ParseInt(s, 0, 64)` followed by the conversion to `int` (64 bit).

Every place where the Go code indexes or slices (`line[5:]`, `fields[0]`, `fields[3:]`,
`instructions[len-2]`) goes through `sliceFrom` / `index`, which answer `none` exactly where the Go
run time would panic; `none` propagates to the outcome `panic`.  That the outcome is never `panic`
is therefore a theorem about the guards (`C16.parse_total`), not an artefact of totalisation.
-/

namespace Disasm

abbrev Bytes := List UInt8

/-- bytes of an ASCII literal (used for the constants of the parser and in examples) -/
def ofStr (s : String) : Bytes := s.toList.map (fun c => c.toNat.toUInt8)

/-! ## Go primitives that can panic -/

/-- Go `s[n:]`: a run-time panic (`none`) iff `n > len(s)` -/
def sliceFrom {α} (n : Nat) (l : List α) : Option (List α) :=
  if n ≤ l.length then some (l.drop n) else none

/-- Go `s[i]`: a run-time panic (`none`) iff `i ≥ len(s)` -/
def index {α} (l : List α) (i : Nat) : Option α := l[i]?

/-! ## `strings` -/

/-- `strings.HasPrefix(l, p)` -/
def hasPrefix (p l : Bytes) : Bool := p.isPrefixOf l

/-- `strings.Contains(l, pat)` -/
def contains (pat : Bytes) : Bytes → Bool
  | [] => pat.isEmpty
  | b :: t => pat.isPrefixOf (b :: t) || contains pat t

/-- Length in bytes of the white-space rune (`unicode.IsSpace`) that starts at the head of the
    list, 0 if there is none.  `\t \n \v \f \r ' '`, U+0085, U+00A0, U+1680, U+2000–U+200A, U+2028,
    U+2029, U+202F, U+205F, U+3000.  A leading byte of a multi-byte sequence is never a continuation
    byte, so Go's rune-by-rune decoding (invalid bytes have width 1) meets these sequences exactly
    where they occur as byte sequences. -/
def spaceLen (l : Bytes) : Nat :=
  match l with
  | [] => 0
  | b :: t =>
    if b = 9 ∨ b = 10 ∨ b = 11 ∨ b = 12 ∨ b = 13 ∨ b = 32 then 1
    else if b = 0xC2 then
      (match t with
       | c :: _ => if c = 0x85 ∨ c = 0xA0 then 2 else 0
       | [] => 0)
    else if b = 0xE1 then
      (match t with
       | c :: d :: _ => if c = 0x9A ∧ d = 0x80 then 3 else 0
       | _ => 0)
    else if b = 0xE2 then
      (match t with
       | c :: d :: _ =>
         if c = 0x80 ∧ ((0x80 ≤ d ∧ d ≤ 0x8A) ∨ d = 0xA8 ∨ d = 0xA9 ∨ d = 0xAF) then 3
         else if c = 0x81 ∧ d = 0x9F then 3 else 0
       | _ => 0)
    else if b = 0xE3 then
      (match t with
       | c :: d :: _ => if c = 0x80 ∧ d = 0x80 then 3 else 0
       | _ => 0)
    else 0

/-- the field collected so far (kept reversed), if any -/
def flush (cur : Bytes) : List Bytes := if cur.isEmpty then [] else [cur.reverse]

/-- `skip` = bytes of a multi-byte space still to be dropped; `cur` = current field, reversed -/
def fieldsAux : Nat → Bytes → Bytes → List Bytes
  | _, cur, [] => flush cur
  | skip+1, cur, _ :: t => fieldsAux skip cur t
  | 0, cur, b :: t =>
    match spaceLen (b :: t) with
    | 0 => fieldsAux 0 (b :: cur) t
    | k+1 => flush cur ++ fieldsAux k [] t

/-- `strings.Fields` -/
def fields (l : Bytes) : List Bytes := fieldsAux 0 [] l

/-- `strings.Join(l, " ")` -/
def joinSp : List Bytes → Bytes
  | [] => []
  | [a] => a
  | a :: b :: r => a ++ 32 :: joinSp (b :: r)

/-! ## `strconv.ParseInt(s, 0, 64)` -/

/-- strconv's `lower(c) = c | ('x' - 'X')` -/
def lower (c : UInt8) : UInt8 := c ||| 0x20

def isDec (c : UInt8) : Bool := 48 ≤ c && c ≤ 57

/-- value of a digit character in `ParseUint`'s loop (`none`: syntax error) -/
def digitVal (c : UInt8) : Option Nat :=
  if isDec c then some (c.toNat - 48)
  else if 97 ≤ lower c && lower c ≤ 122 then some ((lower c).toNat - 97 + 10)
  else none

/-- the digit loop of `ParseUint` with `base0 = true`: `n` accumulated value, `us` = an underscore
    was seen.  `none` = syntax or range error (the caller does not distinguish them).  The two
    overflow tests of the Go code (`n >= cutoff`, `n1 < n || n1 > maxVal`) together say
    `n*base + d ≥ 2^64`. -/
def parseDigits (base : Nat) : Nat → Bool → Bytes → Option (Nat × Bool)
  | n, us, [] => some (n, us)
  | n, us, c :: t =>
    if c = 95 then parseDigits base n true t
    else match digitVal c with
      | none => none
      | some d =>
        if d ≥ base then none
        else if n * base + d ≥ 2 ^ 64 then none
        else parseDigits base (n * base + d) us t

/-- kind of the previous character in `underscoreOK` (`'^' '0' '_' '!'`) -/
inductive UK | start | digit | us | other
deriving DecidableEq, Repr

def underscoreLoop (hex : Bool) : UK → Bytes → Bool
  | k, [] => k ≠ .us
  | k, c :: t =>
    if isDec c || (hex && (97 ≤ lower c && lower c ≤ 102)) then underscoreLoop hex .digit t
    else if c = 95 then (if k ≠ .digit then false else underscoreLoop hex .us t)
    else if k = .us then false
    else underscoreLoop hex .other t

def isBasePrefixChar (c : UInt8) : Bool := lower c = 98 || lower c = 111 || lower c = 120

/-- strconv's `underscoreOK` -/
def underscoreOK (s : Bytes) : Bool :=
  let s1 := match s with
    | c :: r => if c = 45 ∨ c = 43 then r else s
    | [] => s
  match s1 with
  | z :: c :: r =>
    if z = 48 ∧ isBasePrefixChar c then underscoreLoop (lower c = 120) .digit r
    else underscoreLoop false .start s1
  | _ => underscoreLoop false .start s1

/-- `ParseUint(s, 0, 64)`; `none` = any error -/
def parseUint0 (s : Bytes) : Option Nat :=
  match s with
  | [] => none
  | z :: rest =>
    let bd : Nat × Bytes :=
      if z = 48 then
        (match rest with
         | c :: _ :: _ =>
           if lower c = 98 then (2, rest.drop 1)
           else if lower c = 111 then (8, rest.drop 1)
           else if lower c = 120 then (16, rest.drop 1)
           else (8, rest)
         | _ => (8, rest))
      else (10, s)
    match parseDigits bd.1 0 false bd.2 with
    | none => none
    | some (n, us) => if us && !underscoreOK s then none else some n

/-- `strconv.ParseInt(s, 0, 64)` and the conversion `int(num)` (the identity on 64-bit hosts);
    `none` = any error (`findSyscallNum` treats all alike) -/
def parseInt (s : Bytes) : Option Int :=
  match s with
  | [] => none
  | c :: r =>
    let neg : Bool := c == 45
    let body := if c = 43 ∨ c = 45 then r else s
    match parseUint0 body with
    | none => none
    | some un =>
      if !neg && un ≥ 2 ^ 63 then none
      else if neg && un > 2 ^ 63 then none
      else some (if neg then - (un : Int) else (un : Int))

/-! ## the two regular expressions -/

def isUpper (b : UInt8) : Bool := 65 ≤ b && b ≤ 90

/-- `MOV[A-Z]? \$` anchored at the head: number of bytes it consumes and the rest.  The optional
    capital is greedy, but the two alternatives exclude each other (the byte after `MOV` is either
    a blank or a capital), so no backtracking is needed. -/
def movHead (l : Bytes) : Option (Nat × Bytes) :=
  match l with
  | m :: o :: v :: c :: r =>
    if m = 77 ∧ o = 79 ∧ v = 86 then
      if c = 32 then
        (match r with
         | d :: r' => if d = 36 then some (5, r') else none
         | [] => none)
      else if isUpper c then
        (match r with
         | sp :: d :: r' => if sp = 32 ∧ d = 36 then some (6, r') else none
         | _ => none)
      else none
    else none
  | _ => none

/-- does one of the alternatives start here? -/
def startsAny (tails : List Bytes) (l : Bytes) : Bool := tails.any (fun t => t.isPrefixOf l)

/-- greatest index `≥ i` (counting the head of the list as `i`) at which one of `tails` starts -/
def lastTailAux (tails : List Bytes) : Nat → Option Nat → Bytes → Option Nat
  | _, best, [] => best
  | i, best, b :: t => lastTailAux tails (i + 1) (if startsAny tails (b :: t) then some i else best) t

/-- A regular expression of the shape `MOV[A-Z]? \$(.+)(?:t₁|…|tₙ)` where all `tᵢ` have the
    length `tailLen`. -/
structure Regex where
  tails : List Bytes
  tailLen : Nat

/-- anchored match: `(matches[0], matches[1])`.  `(.+)` is greedy, so it extends to the last
    occurrence of a tail that leaves it at least one character. -/
def Regex.matchAt (re : Regex) (l : Bytes) : Option (Bytes × Bytes) :=
  match movHead l with
  | none => none
  | some (k, r) =>
    match r with
    | [] => none
    | _ :: t =>
      match lastTailAux re.tails 1 none t with
      | none => none
      | some j => some (l.take (k + j + re.tailLen), r.take j)

/-- `FindStringSubmatch`: the leftmost start from which a match exists -/
def Regex.find (re : Regex) : Bytes → Option (Bytes × Bytes)
  | [] => none
  | b :: t =>
    match re.matchAt (b :: t) with
    | some m => some m
    | none => re.find t

/-- ``MOV[A-Z]? \$(.+), 0\(SP\)`` -/
def callRegex : Regex := { tails := [ofStr ", 0(SP)"], tailLen := 7 }
/-- ``MOV[A-Z]? \$(.+), (?:AX|BP)`` -/
def rawRegex : Regex := { tails := [ofStr ", AX", ofStr ", BP"], tailLen := 4 }

/-! ## disasm.go -/

/-- `disasm.Syscall` -/
structure Syscall where
  num : Int
  name : String
  caller : Bytes
  function : Bytes
  location : Bytes
  assembly : Bytes
deriving DecidableEq, Repr

/-- the fields of `parser` that differ between the architectures -/
structure Parser where
  raw : List Bytes       -- rawSyscallInstructions
  callOp : Bytes

def x86_64Parser : Parser := { raw := [ofStr "SYSCALL"], callOp := ofStr "CALL" }
def i386Parser : Parser := { raw := [ofStr "INT $0x80", ofStr "SYSENTER"], callOp := ofStr "CALL" }

def functionMarker : Bytes := ofStr "TEXT"

def Parser.isRawSyscall (p : Parser) (line : Bytes) : Bool := p.raw.any (fun ins => contains ins line)
def Parser.isFunctionCall (p : Parser) (line : Bytes) : Bool := contains p.callOp line

def syscallFunctions : List Bytes :=
  [ofStr "syscall.Syscall(SB)", ofStr "syscall.Syscall6(SB)", ofStr "syscall.rawVforkSyscall(SB)",
   ofStr "syscall.RawSyscall(SB)", ofStr "syscall.RawSyscall6(SB)", ofStr "unix.RawSyscall(SB)",
   ofStr "unix.RawSyscall6(SB)", ofStr "unix.RawSyscallNoError(SB)", ofStr "unix.Syscall(SB)",
   ofStr "unix.Syscall6(SB)", ofStr "unix.Syscall9(SB)", ofStr "unix.SyscallNoError(SB)"]

def isSyscallFunction (function : Bytes) : Bool := syscallFunctions.any (fun f => contains f function)

/-- `functionField`; `none` = panic of `fields[3:]` -/
def functionField (fs : List Bytes) : Option Bytes :=
  if fs.length < 3 then some []
  else match sliceFrom 3 fs with
    | none => none
    | some r => some (joinSp r)

/-- The instruction window is kept newest first: `win = current :: previous :: …`.
    `lastInstruction` is `instructions[len-2]`, guarded by `len >= 2`; `none` = panic. -/
def lastInstruction (win : List Bytes) : Option Bytes :=
  if win.length ≥ 2 then index win 1 else some []

inductive NumResult
  | found (num : Int) (assembly : Bytes)
  | err
deriving DecidableEq, Repr

/-- `findSyscallNum`: newest line first; the first line on which the expression matches decides,
    also when its number does not parse -/
def findSyscallNum (re : Regex) : List Bytes → NumResult
  | [] => .err
  | line :: older =>
    match re.find line with
    | none => findSyscallNum re older
    | some (whole, grp) =>
      match parseInt grp with
      | none => .err
      | some n => .found n whole

inductive LineResult
  | notSyscall              -- `nil, nil`
  | warn                    -- `nil, err`
  | found (s : Syscall)
deriving DecidableEq, Repr

def xorl : Bytes := ofStr "XORL AX, AX"

/-- the common tail of `parseX86_64`: `fields[0]`, `functionField(fields)`, then `k` -/
def withFields (line : Bytes) (k : Bytes → Bytes → LineResult) : Option LineResult :=
  let fs := fields line
  match index fs 0 with
  | none => none
  | some loc =>
    match functionField fs with
    | none => none
    | some fn => some (k loc fn)

/-- `parseX86_64` (used for both architectures); `win` already contains `line` at its head.
    `none` = panic. -/
def parseLine (p : Parser) (line caller : Bytes) (win : List Bytes) : Option LineResult :=
  let number (re : Regex) : Option LineResult :=
    withFields line fun loc fn =>
      match findSyscallNum re win with
      | .err => .warn
      | .found n a => .found { num := n, name := "", caller := [], function := fn, location := loc, assembly := a }
  if p.isRawSyscall line && !isSyscallFunction caller then
    match lastInstruction win with
    | none => none
    | some inst =>
      if inst ≠ [] ∧ contains xorl inst then
        withFields line fun loc fn =>
          .found { num := 0, name := "", caller := [], function := fn, location := loc, assembly := xorl }
      else number rawRegex
  else if p.isFunctionCall line && isSyscallFunction line then number callRegex
  else some .notSyscall

/-- state of the loop in `parser.Parse` -/
structure St where
  function : Bytes
  window : List Bytes        -- newest first
  found : List Syscall
deriving DecidableEq, Repr

def St.init : St := { function := [], window := [], found := [] }

/-- `p.SyscallNumbers[num]` (a `map[int]string`) -/
def lookupNum (tbl : Nat → Option String) (n : Int) : Option String :=
  if n < 0 then none else tbl n.toNat

/-- one iteration of the loop; `none` = panic -/
def step (p : Parser) (tbl : Nat → Option String) (st : St) (line : Bytes) : Option St :=
  if hasPrefix functionMarker line then
    if line.length > functionMarker.length then
      match sliceFrom (functionMarker.length + 1) line with
      | none => none
      | some f => some { st with function := f, window := [] }
    else some { st with function := [], window := [] }
  else
    let win := line :: st.window
    match parseLine p line st.function win with
    | none => none
    | some .notSyscall => some { st with window := win }
    | some .warn => some { st with window := win }
    | some (.found s) =>
      match lookupNum tbl s.num with
      | none => some { st with window := [] }
      | some name =>
        some { st with window := [], found := st.found ++ [{ s with caller := st.function, name := name }] }

def run (p : Parser) (tbl : Nat → Option String) : St → List Bytes → Option St
  | st, [] => some st
  | st, l :: ls =>
    match step p tbl st l with
    | none => none
    | some st' => run p tbl st' ls

/-! ## the scanner -/

/-- the lines of the content as `ScanLines` cuts them, before `\r` is dropped and before the
    length limit: split at `\n`; a last line without `\n` counts unless it is empty.
    `cur` = the current line, reversed. -/
def rawLinesAux : Bytes → Bytes → List Bytes
  | cur, [] => if cur.isEmpty then [] else [cur.reverse]
  | cur, b :: t => if b = 10 then cur.reverse :: rawLinesAux [] t else rawLinesAux (b :: cur) t

def rawLines (content : Bytes) : List Bytes := rawLinesAux [] content

/-- `bufio.MaxScanTokenSize`: the buffer must hold the line and its `\n` (or, at the end of the
    input, must not be full), so a raw line of 65536 bytes or more is `ErrTooLong` -/
def maxToken : Nat := 65536

/-- `dropCR` -/
def dropCR (l : Bytes) : Bytes := if l.getLast? = some 13 then l.dropLast else l

/-- tokens delivered by `s.Scan()` and whether `s.Err()` is `ErrTooLong` afterwards -/
def scan : List Bytes → List Bytes × Bool
  | [] => ([], false)
  | l :: rest =>
    if l.length ≥ maxToken then ([], true)
    else match scan rest with
      | (ts, e) => (dropCR l :: ts, e)

inductive Outcome
  | ok (l : List Syscall)
  | error
  | panic
deriving DecidableEq, Repr

/-- `parser.Parse` on a file with the given content.  `fail = some k`: the underlying reader
    reports an I/O error once the first `k` lines were delivered (`k = 0`: immediately, e.g. the
    path is a directory; a path that cannot be opened behaves the same).  The lines read before
    the failure are processed (and could panic) before the error is looked at, as in the Go code. -/
def parse (p : Parser) (tbl : Nat → Option String) (content : Bytes) (fail : Option Nat) : Outcome :=
  let raw := match fail with
    | none => rawLines content
    | some k => (rawLines content).take k
  match run p tbl St.init (scan raw).1 with
  | none => .panic
  | some st => if (scan raw).2 || fail.isSome then .error else .ok st.found

end Disasm
