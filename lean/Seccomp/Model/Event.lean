import Seccomp.Model.Policy
/-!
# Syscall events and the word view of `struct seccomp_data`

```
struct seccomp_data { int nr; __u32 arch; __u64 instruction_pointer; __u64 args[6]; };
```
`words e ev off` is the 32-bit word the kernel's `LD|W|ABS off` loads for event `ev` when
the record is laid out in byte order `e`.  Arguments are indexed by `Nat`; a real event
only has `args 0 … args 5`, and an accepted policy only reads those (`Validate`), so
quantifying over all `Nat → BitVec 64` covers every real event.
-/

structure Event where
  nr : Word
  arch : Word
  ip : BitVec 64
  args : Nat → BitVec 64

def words (e : Endian) (ev : Event) (off : Nat) : Word :=
  if off = 0 then ev.nr
  else if off = 4 then ev.arch
  else if off = 8 then (match e with | .little => lo ev.ip | .big => hi ev.ip)
  else if off = 12 then (match e with | .little => hi ev.ip | .big => lo ev.ip)
  else if off % 8 = 0 then (match e with | .little => lo (ev.args ((off - 16) / 8)) | .big => hi (ev.args ((off - 16) / 8)))
  else if off % 8 = 4 then (match e with | .little => hi (ev.args ((off - 16) / 8)) | .big => lo (ev.args ((off - 16) / 8)))
  else 0#32
