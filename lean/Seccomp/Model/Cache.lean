/-!
# The profiler's disassembly cache as a file-system step machine (C17)

`cmd/seccomp-profiler/main.go doObjdump` keeps the output of `go tool objdump <binary>` in
`~/.seccomp-profiler/<base>-<pathhash>`; the first line of that file is the SHA-256 of the binary.
This file models what such a run can do to a file system, including being killed at any point and
every I/O call failing.

* `FS` — a file system: path → content (`none` = no such file).  Paths, Go strings and file contents
  are byte lists (`Str`).
* `World` — the file system, the bytes pending in the single `bufio.Writer` of a run, whether the
  process is still alive, the number of primitive steps performed, the log lines printed, and the
  *environment* `Env` of the run: everything the run does not control (what `go tool objdump` does,
  the random suffix `os.CreateTemp` picks, **after how many primitive steps the process is killed**,
  which steps fail with an I/O error, and how many of the pending bytes `bufio` pushes to the file
  during each buffered write).  Quantifying over `Env` quantifies over all crash points and fault
  sequences.
* every primitive is a pure function `World → result × World` built with `step`: a dead process
  performs nothing (the world stays as it is for ever); a live one performs the effect and then the
  step counter decides whether the process survives.

## Crashes

A crash is the truncation of the run after a primitive step (`Env.crashAt = some n`: the first `n`
steps happen).  Bytes that are still in the `bufio.Writer` are lost.  Being killed *during* a
buffered write (`WriteString`, the copy loop of `cmd.Run`) leaves some prefix of "pending ++ new
data" in the file — this is the same file system as surviving that step with `early` = that prefix
length and being killed right after it, so it is covered by quantifying over `early`.  A `Flush`
that is the last step before the crash is performed partially (any prefix, `early` again).
`rename` is atomic (assumption about the file system; see `osRename`).
-/

namespace Cache

/-- Go strings, paths and file contents: byte lists -/
abbrev Str := List Nat

/-- a Go string literal -/
def bytes (s : String) : Str := s.toList.map Char.toNat

abbrev FS := Str → Option Str

def FS.set (fs : FS) (p : Str) (v : Option Str) : FS := fun q => if q = p then v else fs q

/-- write `data` at the end of file `p` (through an open handle) -/
def FS.append (fs : FS) (p : Str) (data : Str) : FS := fs.set p (some ((fs p).getD [] ++ data))

inductive GoErr where
  | nil
  | fail (what : String)
deriving Repr, DecidableEq

/-- what the program found as `go` in `$PATH` does when asked for `tool objdump <binary>` -/
inductive Objdump where
  | ok                     -- prints the complete listing, exit status 0
  | missing                -- there is no such tool: `cmd.Run` fails, nothing is printed
  | fails (out : Str)      -- prints `out` (a prefix of the listing, or anything else), then exits non-zero
deriving Repr, DecidableEq

structure Env where
  binary : Str                       -- the path given on the command line
  dump : Str                         -- the cache path `cachedDumpFile` computes for it
  listing : Str                      -- what a working `go tool objdump binary` prints
  objdump : Objdump := .ok
  tmpSuffix : Str := []              -- the random suffix `os.CreateTemp` appends
  crashAt : Option Nat := none       -- the process is killed after this many primitive steps
  early : Nat → Nat := fun _ => 0    -- step i: pending bytes that bufio pushes to the file (or that a dying Flush still writes)
  fault : Nat → Bool := fun _ => false  -- step i fails with an I/O error

structure World where
  fs : FS
  env : Env
  buf : Str := []                    -- pending bytes of the run's `bufio.Writer`
  alive : Bool := true
  steps : Nat := 0
  log : List Str := []               -- `log.Println` lines, oldest first
  trace : List String := []          -- names of the primitive steps performed, oldest first

/-- a run starts: nothing buffered, nothing done (killed at once if `crashAt = some 0`) -/
def World.start (fs : FS) (env : Env) : World :=
  { fs := fs, env := env, alive := decide (env.crashAt ≠ some 0) }

/-- after a primitive step: count it; the process dies if this was its last step -/
def tick (name : String) (w : World) : World :=
  { w with steps := w.steps + 1, alive := decide (w.env.crashAt ≠ some (w.steps + 1)), trace := w.trace ++ [name] }

/-- a primitive step: a dead process does nothing -/
def step {α : Type} (name : String) (dflt : α) (f : World → α × World) (w : World) : α × World :=
  if w.alive = true then ((f w).1, tick name (f w).2) else (dflt, w)

/-- does the current step fail with an I/O error? -/
def World.faulty (w : World) : Bool := w.env.fault w.steps

/-- is the current step the last one before the process is killed? -/
def World.dying (w : World) : Bool := decide (w.env.crashAt = some (w.steps + 1))

/-! ## values -/

/-- `*os.File`: the model identifies an open file with its path (every write in `doObjdump` happens
    before the file is renamed) -/
structure File where
  name : Str
deriving Repr, DecidableEq

/-- `*bufio.Writer` (its pending bytes live in `World.buf`) -/
structure Writer where
  file : File
deriving Repr, DecidableEq

/-- `*exec.Cmd` -/
structure Cmd where
  args : List Str
  stdout : Option Writer := none
deriving Repr, DecidableEq

def noFile : File := ⟨[]⟩

/-- `make([]byte, n)` -/
def mkBuf (n : Nat) : Str := List.replicate n 0

/-- `bufio.NewWriter(f)` -/
def newWriter (f : File) : Writer := ⟨f⟩

/-- `exec.Command(name, args…)` -/
def execCommand (args : List Str) : Cmd := { args := args }

/-- `filepath.Base` / `filepath.Dir` of a clean path -/
def baseOf (p : Str) : Str := (p.reverse.takeWhile (· != 47)).reverse
def dirOf (p : Str) : Str := ((p.reverse.dropWhile (· != 47)).drop 1).reverse

/-! ## primitive steps -/

/-- `cachedDumpFile(binary)` (path hash, `user.Current`, `MkdirAll`): the cache path or an error -/
def cachedDumpFile (binary : Str) (w : World) : (Str × GoErr) × World :=
  step "cachedDumpFile" ([], .nil) (fun w =>
    if w.faulty ∨ binary ≠ w.env.binary then (([], .fail "cachedDumpFile"), w) else ((w.env.dump, .nil), w)) w

/-- `os.Open(path)` -/
def osOpen (path : Str) (w : World) : (File × GoErr) × World :=
  step "open" (noFile, .nil) (fun w =>
    if w.faulty ∨ (w.fs path).isNone then ((noFile, .fail "open"), w) else ((⟨path⟩, .nil), w)) w

/-- `f.Read(buf)`: `(n, err)` and the new content of `buf` -/
def fileRead (f : File) (buf : Str) (w : World) : (Nat × GoErr) × Str × World :=
  let r := step "read" ((0, GoErr.nil), buf) (fun w =>
    if w.faulty then (((0, GoErr.fail "read"), buf), w) else
      let data := ((w.fs f.name).getD []).take buf.length
      if data.length = 0 ∧ buf.length ≠ 0 then (((0, GoErr.fail "EOF"), buf), w)
      else (((data.length, GoErr.nil), data ++ buf.drop data.length), w)) w
  (r.1.1, r.1.2, r.2)

/-- `f.Close()` -/
def fileClose (_f : File) (w : World) : GoErr × World :=
  step "close" .nil (fun w => if w.faulty then (.fail "close", w) else (.nil, w)) w

/-- `os.CreateTemp(dir, pattern)`: a new empty file `dir/pattern<random>` (O_EXCL) -/
def osCreateTemp (dir pattern : Str) (w : World) : (File × GoErr) × World :=
  step "createTemp" (noFile, .nil) (fun w =>
    let name := dir ++ [47] ++ pattern ++ w.env.tmpSuffix
    if w.faulty ∨ (w.fs name).isSome then ((noFile, .fail "createTemp"), w)
    else ((⟨name⟩, .nil), { w with fs := w.fs.set name (some []) })) w

/-- `os.Create(path)`: creates or **truncates** -/
def osCreate (path : Str) (w : World) : (File × GoErr) × World :=
  step "create" (noFile, .nil) (fun w =>
    if w.faulty then ((noFile, .fail "create"), w)
    else ((⟨path⟩, .nil), { w with fs := w.fs.set path (some []) })) w

/-- the writer receives `data`: the first `early` bytes of "pending ++ data" reach the file now -/
def pushThrough (out : Writer) (data : Str) (w : World) : World :=
  let pending := w.buf ++ data
  let k := w.env.early w.steps
  { w with fs := w.fs.append out.file.name (pending.take k), buf := pending.drop k }

/-- `out.WriteString(s)` -/
def writeString (out : Writer) (s : Str) (w : World) : (Nat × GoErr) × World :=
  step "writeString" (0, .nil) (fun w =>
    if w.faulty then ((0, .fail "write"), pushThrough out s w) else ((s.length, .nil), pushThrough out s w)) w

/-- the child's output goes to `cmd.Stdout` (discarded if none was set) -/
def emit (o : Option Writer) (data : Str) (w : World) : World :=
  match o with
  | some out => pushThrough out data w
  | none => w

/-- `cmd.Run()` with `cmd.Stdout = out`: the child's output is copied into the writer -/
def cmdRun (cmd : Cmd) (w : World) : GoErr × World :=
  step "cmdRun" .nil (fun w =>
    if w.faulty ∨ cmd.args ≠ [bytes "go", bytes "tool", bytes "objdump", w.env.binary] then (.fail "exec", w)
    else
      match w.env.objdump with
      | .missing => (.fail "exec: \"go\": executable file not found in $PATH", w)
      | .fails o => (.fail "exit status 1", emit cmd.stdout o w)
      | .ok => (.nil, emit cmd.stdout w.env.listing w)) w

/-- `out.Flush()`: everything pending reaches the file — unless the write fails or the process is
    killed during it, then only the first `early` bytes do -/
def flush (out : Writer) (w : World) : GoErr × World :=
  step "flush" .nil (fun w =>
    if w.faulty ∨ w.dying then
      let k := w.env.early w.steps
      (if w.faulty then .fail "write" else .nil,
        { w with fs := w.fs.append out.file.name (w.buf.take k), buf := w.buf.drop k })
    else (.nil, { w with fs := w.fs.append out.file.name w.buf, buf := [] })) w

/-- `os.Rename(old, new)`: **atomic** — at every instant `new` holds either its previous content or
    the complete content of `old` (POSIX rename(2); an assumption about the file system) -/
def osRename (old new : Str) (w : World) : GoErr × World :=
  step "rename" .nil (fun w =>
    if w.faulty ∨ (w.fs old).isNone then (.fail "rename", w)
    else if old = new then (.nil, w)
    else (.nil, { w with fs := (w.fs.set new (w.fs old)).set old none })) w

/-- `os.Remove(path)` -/
def osRemove (path : Str) (w : World) : GoErr × World :=
  step "remove" .nil (fun w =>
    if w.faulty ∨ (w.fs path).isNone then (.fail "remove", w)
    else (.nil, { w with fs := w.fs.set path none })) w

/-- `log.Println(args…)` -/
def logPrintln (args : List Str) (w : World) : World :=
  (step "log" () (fun w => ((), { w with log := w.log ++ [(args.intersperse [32]).flatten] })) w).2

/-! ### hashing (`hashBinary`) -/

/-- SHA-256 as a function from contents to 32 bytes.  Nothing is assumed about it except, where a
    theorem says so, the length of its result. -/
opaque sha256 : Str → Str

/-- `hash.Hash`: the bytes absorbed so far -/
structure Hasher where
  data : Str
deriving Repr, DecidableEq

/-- `*bufio.Reader` -/
structure Reader where
  file : File
deriving Repr, DecidableEq

def sha256New : Hasher := ⟨[]⟩
def newReader (f : File) : Reader := ⟨f⟩
/-- `h.Sum(nil)` -/
def hashSum (h : Hasher) : Str := sha256 h.data

def hexDigit (n : Nat) : Nat := if n < 10 then 48 + n else 87 + n
/-- `hex.EncodeToString` -/
def hexEncode : Str → Str
  | [] => []
  | b :: rest => hexDigit (b / 16 % 16) :: hexDigit (b % 16) :: hexEncode rest

/-- `io.Copy(h, r)`: the hash absorbs the file, or the read fails (after absorbing some prefix) -/
def ioCopy (h : Hasher) (r : Reader) (w : World) : (Nat × GoErr) × Hasher × World :=
  let x := step "copy" ((0, GoErr.nil), h) (fun w =>
    let content := (w.fs r.file.name).getD []
    if w.faulty then (((0, GoErr.fail "read"), ⟨h.data ++ content.take (w.env.early w.steps)⟩), w)
    else (((content.length, GoErr.nil), ⟨h.data ++ content⟩), w)) w
  (x.1.1, x.1.2, x.2)

/-- a deferred call: its results are discarded -/
def deferred {α : Type} (p : World → α × World) (w : World) : World := (p w).2

/-- Statements and results the translator could not render are steps of an arbitrary oracle: nothing
    can be proved about them, so every theorem about generated code quantifies over `U`. -/
structure Unsupported where
  step : String → World → World
  noReturnErr : GoErr
  noReturn2 : Str × GoErr

end Cache

/-!
# The repaired cache protocol (hand-written reference; nothing here is generated)

This is the specification side of C17: the theorems of `Proofs/C17.lean` are proved about it, the
live runs of the built profiler are compared with it, and the regenerated rendering of the source
(`Gen.doObjdump`) is tied to it by the theorem `C17.tie`.
-/
namespace CacheSpec
open Cache

/-! ## vocabulary of the property -/

def isHex (b : Nat) : Prop := (48 ≤ b ∧ b ≤ 57) ∨ (97 ≤ b ∧ b ≤ 102)

/-- a hex-encoded SHA-256: 64 lower-case hex digits -/
def IsHash (h : Str) : Prop := h.length = 64 ∧ ∀ b ∈ h, isHex b

instance (b : Nat) : Decidable (isHex b) := by unfold isHex; exact inferInstance
instance (h : Str) : Decidable (IsHash h) := by unfold IsHash; exact inferInstance

/-- what `hashBinary` can hand to `doObjdump`: a hash, or `""` (it swallows read errors) -/
def HashOK (h : Str) : Prop := IsHash h ∨ h = []

/-- **complete for the exact binary**: the hash line followed by the whole listing of the binary
    with that hash (`L` = the disassembly as a function of the binary's hash) -/
def complete (L : Str → Str) (hash : Str) : Str := hash ++ bytes "\n" ++ L hash

/-- the cache path never *claims* more than it holds: if its first 64 bytes are a hash, the file is
    complete for the binary with that hash -/
def Honest (L : Str → Str) (dump : Str) (fs : FS) : Prop :=
  ∀ c, fs dump = some c → ∀ h, IsHash h → c.take 64 = h → c = complete L h

/-- step 1: is there a cache file whose first 64 bytes are the hash? -/
def lookup (dump hash : Str) (w : World) : Bool × World :=
  let o := osOpen dump w
  if o.1.2 = .nil then
    let r := fileRead o.1.1 (mkBuf 64) o.2
    let c := fileClose o.1.1 r.2.2
    (decide ((r.1.2 = .nil ∧ r.1.1 = r.2.1.length) ∧ hash = r.2.1), c.2)
  else (false, o.2)

/-- what every return after `os.CreateTemp` runs: `f.Close()`, then `os.Remove(f.Name())` -/
def cleanup (f : File) (w : World) : World :=
  deferred (osRemove f.name) (deferred (fileClose f) w)

/-- step 2: write header and listing to a temporary file next to the cache file, and move it into
    place only after objdump succeeded and everything was flushed and closed -/
def store (binary dump hash : Str) (w : World) : (Str × GoErr) × World :=
  let t := osCreateTemp (dirOf dump) (baseOf dump ++ bytes ".tmp") w
  if t.1.2 ≠ .nil then (([], t.1.2), t.2) else
  let f := t.1.1
  let out := newWriter f
  let h := writeString out (hash ++ bytes "\n") t.2
  if h.1.2 ≠ .nil then (([], h.1.2), cleanup f h.2) else
  let cmd : Cmd := { execCommand [bytes "go", bytes "tool", bytes "objdump", binary] with stdout := some out }
  let r := cmdRun cmd h.2
  if r.1 ≠ .nil then (([], r.1), cleanup f r.2) else
  let fl := flush out r.2
  if fl.1 ≠ .nil then (([], fl.1), cleanup f fl.2) else
  let c := fileClose f fl.2
  if c.1 ≠ .nil then (([], c.1), cleanup f c.2) else
  let mv := osRename f.name dump c.2
  if mv.1 ≠ .nil then (([], mv.1), cleanup f mv.2) else
  ((dump, .nil), cleanup f (logPrintln [bytes "objdump written to", dump] mv.2))

/-- `doObjdump(binary, hash)`: `(path of a disassembly file, error)` -/
def doObjdump (binary hash : Str) (w : World) : (Str × GoErr) × World :=
  let d := cachedDumpFile binary w
  if d.1.2 ≠ .nil then (([], d.1.2), d.2) else
  let l := lookup d.1.1 hash d.2
  if l.1 = true then ((d.1.1, .nil), logPrintln [bytes "Using cached objdump."] l.2)
  else store binary d.1.1 hash l.2

/-- `hashBinary(binary)`: the hex SHA-256 of the file — or `""` **without an error** when reading
    fails (main.go returns `"", nil` there; `doObjdump` then never finds a cache entry) -/
def hashBinary (binary : Str) (w : World) : (Str × GoErr) × World :=
  let o := osOpen binary w
  if o.1.2 ≠ .nil then (([], o.1.2), o.2) else
  let c := ioCopy sha256New (newReader o.1.1) o.2
  if c.1.2 ≠ .nil then (([], .nil), deferred (fileClose o.1.1) c.2.2)
  else ((hexEncode (hashSum c.2.1), .nil), deferred (fileClose o.1.1) c.2.2)

/-- The **pinned** protocol (before the repair): header and listing are streamed into the final
    path; the writer is flushed by a deferred call, i.e. also on the error path. -/
def pinnedStore (binary dump hash : Str) (w : World) : (Str × GoErr) × World :=
  let t := osCreate dump w
  if t.1.2 ≠ .nil then (([], t.1.2), t.2) else
  let f := t.1.1
  let out := newWriter f
  let atReturn (w : World) : World := deferred (fileClose f) (deferred (flush out) w)
  let h := writeString out (hash ++ bytes "\n") t.2
  if h.1.2 ≠ .nil then (([], h.1.2), atReturn h.2) else
  let cmd : Cmd := { execCommand [bytes "go", bytes "tool", bytes "objdump", binary] with stdout := some out }
  let r := cmdRun cmd h.2
  if r.1 ≠ .nil then (([], r.1), atReturn r.2) else
  ((dump, .nil), atReturn (logPrintln [bytes "objdump written to", dump] r.2))

def pinnedDoObjdump (binary hash : Str) (w : World) : (Str × GoErr) × World :=
  let d := cachedDumpFile binary w
  if d.1.2 ≠ .nil then (([], d.1.2), d.2) else
  let l := lookup d.1.1 hash d.2
  if l.1 = true then ((d.1.1, .nil), logPrintln [bytes "Using cached objdump."] l.2)
  else pinnedStore binary d.1.1 hash l.2

end CacheSpec
