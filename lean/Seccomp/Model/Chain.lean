import Seccomp.Model.Bpf
/-!
# A chain of filters (`seccomp_run_filters`)

A thread carries a chain of filters, newest first.  The kernel runs **every** filter of the chain on the
event and keeps the return value whose *action part, read as a signed 32-bit number,* is the smallest;
it starts from `SECCOMP_RET_ALLOW` and replaces the kept value only by a strictly smaller one, so among
equal actions the newest filter's value (with its data: the errno) is kept:

```
u32 ret = SECCOMP_RET_ALLOW;
for (; f; f = f->prev) {                      /* newest first */
        u32 cur_ret = bpf_prog_run_pin_on_cpu(f->prog, sd);
        if (ACTION_ONLY(cur_ret) < ACTION_ONLY(ret)) { ret = cur_ret; *match = f; }
}
#define ACTION_ONLY(ret) ((s32)((ret) & (SECCOMP_RET_ACTION_FULL)))
```

Modelled, not verified (validated by the live `kernel/decide` stream, which loads a second policy on top
of the first in one child out of three and compares the kernel's answers with `chain`).
-/

namespace Chain

def retAllow : Word := 0x7fff0000#32
def actionFull : Word := 0xffff0000#32

/-- `ACTION_ONLY`: the action part as a signed number (kill_process = 0x80000000 is the smallest) -/
def actionOnly (v : Word) : Int := (v &&& actionFull).toInt

/-- one step of the loop: `ret` so far, `cur` the value of the next (older) filter -/
def keep (ret cur : Word) : Word := if actionOnly cur < actionOnly ret then cur else ret

/-- the loop over the filters' return values, newest first, starting from `ret` -/
def runFrom (ret : Word) : List Word → Word
  | [] => ret
  | cur :: older => runFrom (keep ret cur) older

/-- the kernel's decision for a thread whose filters (newest first) return `vs` -/
def chain (vs : List Word) : Word := runFrom retAllow vs

end Chain
