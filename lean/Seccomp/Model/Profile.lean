/-!
# The profiler's set pipeline and its flag parser (C18)

`cmd/seccomp-profiler/main.go main()` turns the syscalls found in the disassembly into the list
of names it emits:

1. **deduplicate by number** through `map[int]disasm.Syscall` (`m[s.Num] = s`: the last site with a
   number wins),
2. collect the names of the map's values (map order: arbitrary),
3. `filterBlacklist` if `-b` was given: drop the names that are in the blacklist,
4. `addWhitelist` if `-allow` was given: put the names into a set and add every allow-list name
   that the architecture's table knows (map order again),
5. `sort.Strings`.

The model runs the same pipeline on lists (an association list stands for the Go map, insertion
order for the unspecified iteration order).  The result of step 5 does not depend on that order:
a strictly sorted list is determined by its members (`C18.sorted_unique`).

`stringSlice.Set`: every occurrence of `-b` / `-allow` is split by `strings.FieldsFunc` at Unicode
white space, `,` and `;`; the pieces are appended to what earlier occurrences gave.
-/

namespace Profile

/-! ## flags -/

/-- `unicode.IsSpace` -/
def isGoSpace (c : Char) : Bool :=
  let n := c.toNat
  (9 ≤ n && n ≤ 13) || n == 32 || n == 0x85 || n == 0xA0 || n == 0x1680 || (0x2000 ≤ n && n ≤ 0x200A) ||
  n == 0x2028 || n == 0x2029 || n == 0x202F || n == 0x205F || n == 0x3000

/-- the separator predicate of `stringSlice.Set` -/
def isSep (c : Char) : Bool := isGoSpace c || c == ',' || c == ';'

/-- `strings.FieldsFunc`: the maximal runs of non-separator characters (`cur` = the run being read, reversed) -/
def fieldsAux (sep : Char → Bool) : List Char → List Char → List (List Char)
  | [], cur => if cur.isEmpty then [] else [cur.reverse]
  | c :: rest, cur =>
    if sep c then (if cur.isEmpty then fieldsAux sep rest [] else cur.reverse :: fieldsAux sep rest [])
    else fieldsAux sep rest (c :: cur)

def fieldsFunc (sep : Char → Bool) (s : String) : List String :=
  (fieldsAux sep s.toList []).map String.ofList

/-- `stringSlice.Set(value)` -/
def flagSet (acc : List String) (value : String) : List String := acc ++ fieldsFunc isSep value

/-- all occurrences of a flag, in command-line order -/
def parseFlag (values : List String) : List String := values.foldl flagSet []

/-! ## the pipeline -/

/-- `m[s.Num] = s` on an association list -/
def putNum (m : List (Nat × String)) (x : Nat × String) : List (Nat × String) :=
  if m.any (fun y => y.1 == x.1) then m.map (fun y => if y.1 == x.1 then x else y) else m ++ [x]

/-- the map after the deduplication loop -/
def dedupByNum (found : List (Nat × String)) : List (Nat × String) := found.foldl putNum []

/-- `filterBlacklist` -/
def filterBlacklist (blacklist names : List String) : List String :=
  names.filter (fun s => !blacklist.contains s)

/-- `m[s] = struct{}{}` on a list used as a set -/
def addName (m : List String) (s : String) : List String := if m.contains s then m else m ++ [s]

/-- `addWhitelist`: the names as a set, plus the allow-list names the table knows -/
def addAllow (tableHas : String → Bool) (allow names : List String) : List String :=
  allow.foldl (fun m s => if tableHas s then addName m s else m) (names.foldl addName [])

/-- `sort.Strings` (the result of a sort is determined by the multiset; insertion sort reduces in the kernel) -/
def insertSorted (x : String) : List String → List String
  | [] => [x]
  | y :: ys => if x ≤ y then x :: y :: ys else y :: insertSorted x ys

def sortStrings : List String → List String
  | [] => []
  | x :: xs => insertSorted x (sortStrings xs)

/-- the names the profiler emits: `found` = `(number, name)` of every syscall site in the order
    `disasm.ExtractSyscalls` reports them, `tableHas` = "is a key of `archInfo.SyscallNames`" -/
def profileNames (found : List (Nat × String)) (blacklist allow : List String) (tableHas : String → Bool) :
    List String :=
  let names := (dedupByNum found).map (·.2)
  let names := if blacklist.isEmpty then names else filterBlacklist blacklist names
  let names := if allow.isEmpty then names else addAllow tableHas allow names
  sortStrings names

end Profile
