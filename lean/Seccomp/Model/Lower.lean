import Seccomp.Model.Asm
/-!
# Lowering of resolved entries to label programs and of groups to a filter (filter.go)

Mirrors `SyscallWithConditions.Assemble`, `SyscallGroup.assemble` and the layout part of
`Policy.Assemble`, at the level of *resolved entries* (syscall numbers instead of names;
names are resolved in `Model/Policy.lean`).  Labels are structured (`PL`) instead of the
integers the Go builder hands out: labels do not survive assembly, only outputs are
compared, and structured labels make "placed once, ahead of its uses" evident.
-/

/-- structured labels of the policy compiler -/
inductive PL where
  | action
  | nextSys (e : Nat)
  | afterNr (e : Nat)
  | noMatch (e l : Nat)
  | nextArg (e l c : Nat)
  | nextIns (e l c j : Nat)
deriving DecidableEq, Repr

inductive Op where | eq | ne | gt | lt | ge | le | set | nset
deriving DecidableEq, Repr

structure Cnd where
  arg : Nat
  op : Op
  val : BitVec 64

def hi (a : BitVec 64) : Word := a.extractLsb' 32 32
def lo (a : BitVec 64) : Word := a.extractLsb' 0 32

def Cnd.holds (c : Cnd) (args : Nat → BitVec 64) : Bool :=
  let a := args c.arg
  match c.op with
  | .eq => a == c.val | .ne => a != c.val
  | .gt => c.val.ult a | .lt => a.ult c.val
  | .ge => c.val.ule a | .le => a.ule c.val
  | .set => (a &&& c.val) != 0#64 | .nset => (a &&& c.val) == 0#64

/-- word layout of the record: any layout that puts the halves where `hiOff`/`loOff` say -/
structure Layout where
  hiOff : Nat → Nat
  loOff : Nat → Nat

structure Sees (ly : Layout) (w : Nat → Word) (nr : Word) (args : Nat → BitVec 64) : Prop where
  nr : w 0 = nr
  hi : ∀ i, w (ly.hiOff i) = hi (args i)
  lo : ∀ i, w (ly.loOff i) = lo (args i)

section shapes
variable (ly : Layout)

/-- `JmpIfTrue`: conditional jump whose false branch is the next instruction -/
def jt (c : Cond) (k : Word) (tl : PL) (fresh : PL) : List (Tok PL) := [.ins (.jif c k tl fresh), .lab fresh]

def condToks (e l c : Nat) (cnd : Cnd) (m : PL) : List (Tok PL) :=
  let nm := PL.noMatch e l
  let f := PL.nextIns e l c
  let vh := hi cnd.val
  let vl := lo cnd.val
  let ldhi : Tok PL := .ins (.ld (ly.hiOff cnd.arg))
  let ldlo : Tok PL := .ins (.ld (ly.loOff cnd.arg))
  (match cnd.op with
  | .eq   => [ldhi] ++ jt .ne vh nm (f 0) ++ [ldlo, .ins (.jif .eq vl m nm)]
  | .ne   => [ldhi] ++ jt .ne vh m (f 0) ++ [ldlo, .ins (.jif .ne vl m nm)]
  | .gt   => [ldhi] ++ jt .gt vh m (f 0) ++ jt .ne vh nm (f 1) ++ [ldlo, .ins (.jif .gt vl m nm)]
  | .ge   => [ldhi] ++ jt .gt vh m (f 0) ++ jt .ne vh nm (f 1) ++ [ldlo, .ins (.jif .ge vl m nm)]
  | .lt   => [ldhi] ++ jt .lt vh m (f 0) ++ jt .ne vh nm (f 1) ++ [ldlo, .ins (.jif .lt vl m nm)]
  | .le   => [ldhi] ++ jt .lt vh m (f 0) ++ jt .ne vh nm (f 1) ++ [ldlo, .ins (.jif .le vl m nm)]
  | .set  => [ldhi] ++ jt .set vh m (f 0) ++ [ldlo, .ins (.jif .set vl m nm)]
  | .nset => [ldhi] ++ jt .set vh nm (f 0) ++ [ldlo, .ins (.jif .nset vl m nm)])
  ++ [.lab (.nextArg e l c)]
end shapes

section lowering
variable (ly : Layout) (nr : Word) (args : Nat → BitVec 64)

/-- conditions `c, c+1, …` of one list; the last one jumps to `action` -/
def condsToks (e l : Nat) : Nat → List Cnd → List (Tok PL)
  | _, [] => []
  | c, [cnd] => condToks ly e l c cnd .action
  | c, cnd :: rest => condToks ly e l c cnd (.nextArg e l c) ++ condsToks e l (c+1) rest

def listMatches (conds : List Cnd) : Bool := !conds.isEmpty && conds.all (·.holds args)

/-- the lists `l, l+1, …` of one entry (OR) -/
def listsToks (e : Nat) : Nat → List (List Cnd) → List (Tok PL)
  | _, [] => []
  | l, conds :: rest => condsToks ly e l 0 conds ++ [.lab (.noMatch e l)] ++ listsToks e (l+1) rest

inductive Entry where
  | uncond (num : Word)
  | cond (num : Word) (lists : List (List Cnd))

def entryToks (e : Nat) : Entry → List (Tok PL)
  | .uncond num => jt .eq num .action (.afterNr e)
  | .cond num lists =>
    jt .ne num (.nextSys e) (.afterNr e) ++ listsToks ly e 0 lists ++ [.ins (.ld 0), .lab (.nextSys e)]

def Entry.matches : Entry → Bool
  | .uncond num => nr == num
  | .cond num lists => nr == num && lists.any (listMatches args)

def entriesToks : Nat → List Entry → List (Tok PL)
  | _, [] => []
  | e, ent :: more => entryToks ly e ent ++ entriesToks (e+1) more

/-- a group as laid out after F1: no match leaves through the end, over the group's return -/
def groupToks (ents : List Entry) (r : Word) : List (Tok PL) :=
  entriesToks ly 0 ents ++ [.ins (.ja 1), .lab .action, .ins (.ret r)]


end lowering

structure ArchI where
  id : Word
  x86 : Bool      -- arch.ID == X86_64.ID

def enosys : Word := 0x00050026#32     -- SECCOMP_RET_ERRNO | ENOSYS
def x32Bit : Word := 0x40000000#32

def x32Filter (x86 : Bool) : List Instr :=
  if x86 then [.jif .ge x32Bit 0 1, .ret enosys] else []

/-- `Policy.Assemble` after F1: arch load, arch jump (8-bit or long form), nr load, x32 guard, body -/
def policyProg (ar : ArchI) (body : List Instr) : List Instr :=
  let rest := x32Filter ar.x86 ++ body
  let jumpN := rest.length
  [.ld 4] ++ (if jumpN ≤ 255 then [.jif .ne ar.id jumpN 0] else [.jif .eq ar.id 1 0, .ja jumpN]) ++ [.ld 0] ++ rest

structure GroupE where
  ents : List Entry
  r : Word           -- encoded action of the group

variable (ly : Layout)

/-- `SyscallGroup.Assemble`: nothing for a group without names, else the resolved group program -/
def compileGroup (g : GroupE) : Except Err (List Instr) :=
  if g.ents.isEmpty then .ok [] else assemble (groupToks ly g.ents g.r)

def compileGroups : List GroupE → Except Err (List (List Instr))
  | [] => .ok []
  | g :: more =>
    match compileGroup ly g with
    | .error e => .error e
    | .ok out =>
      match compileGroups more with
      | .error e => .error e
      | .ok outs => .ok (out :: outs)

def compilePolicy (ar : ArchI) (gs : List GroupE) (d : Word) : Except Err (List Instr) :=
  match compileGroups ly gs with
  | .error e => .error e
  | .ok outs => .ok (policyProg ar (outs.flatten ++ [.ret d]))

def GroupE.matches (g : GroupE) (nr : Word) (args : Nat → BitVec 64) : Bool := g.ents.any (·.matches nr args)

