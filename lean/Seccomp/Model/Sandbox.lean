/-!
# The sandbox command's world (C15)

What matters about `cmd/sandbox`: the order of *parse the policy file*, *install the filter*, *start
the target*, and the exit status.  The outcomes of the three effectful steps are oracles of the world
(any policy file: missing, malformed, unknown syscall, valid; any kernel answer; any target), so
quantifying over worlds quantifies over all policy files, kernels and target commands.
-/

inductive SErr where
  | nil | err (what : String)
deriving DecidableEq, Repr

inductive SEvent where
  | parsed (ok : Bool)
  | loadCalled (noNewPrivs : Bool) (flag : Nat) (ok : Bool)
  | targetStarted
deriving DecidableEq, Repr

inductive SOutcome where
  | exit (code : Nat)
  | returned            -- main returns: exit status 0
deriving DecidableEq, Repr

structure SWorld where
  args : List String         -- command and arguments after the flags
  noNewPrivsFlag : Bool      -- value of -no-new-privs
  parseOk : Bool             -- oracle: parsePolicy succeeds
  loadOk : Bool              -- oracle: LoadFilter returns nil (see C09 for what that means)
  runOk : Bool               -- oracle: the target runs and exits 0
  events : List SEvent := [] -- most recent first

/-- parsed policy (opaque) -/
structure SPolicy where
  dummy : Unit := ()

structure SFilter where
  noNewPrivs : Bool
  flag : Nat
  policy : SPolicy

structure SCmd where
  argv : List String

structure SUnsupported where
  step : String → SWorld → SWorld

def parsePolicyS (w : SWorld) : SPolicy × SErr × SWorld :=
  ({}, if w.parseOk then .nil else .err "parse", { w with events := .parsed w.parseOk :: w.events })

def loadFilterS (f : SFilter) (w : SWorld) : SErr × SWorld :=
  (if w.loadOk then .nil else .err "load", { w with events := .loadCalled f.noNewPrivs f.flag w.loadOk :: w.events })

def execCommand (args : List String) : SCmd := { argv := args }

def cmdRun (_c : SCmd) (w : SWorld) : SErr × SWorld :=
  (if w.runOk then .nil else .err "run", { w with events := .targetStarted :: w.events })

namespace SandboxSpec

/-- what the sandbox command must do (hand-written reference; the live runs of the built binary are
    compared with this) -/
def main (w : SWorld) : SOutcome × SWorld :=
  if w.args.length = 0 then (.exit 1, w)
  else
    let (_, e1, w) := parsePolicyS w
    if e1 ≠ .nil then (.exit 1, w)
    else
      let (e2, w) := loadFilterS { noNewPrivs := w.noNewPrivsFlag, flag := 1, policy := {} } w
      if e2 ≠ .nil then (.exit 1, w)
      else
        let (e3, w) := cmdRun { argv := w.args } w
        if e3 ≠ .nil then (.exit 1, w) else (.returned, w)

end SandboxSpec
