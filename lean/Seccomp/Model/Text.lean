import Seccomp.Model.Bpf
import Seccomp.Gen.Names
/-!
# Text forms of actions, operations and filter flags (filter.go)

`Action.Unpack`, `Action.String`/`MarshalText`, `Operation.Unpack`, `FilterFlag.String`/`MarshalText`
over the regenerated name tables `Gen.actionNames`, `Gen.filterFlagNames`, `Gen.operations`.

**Strings.**  A Go string is a byte string.  Everything the parsers do with it goes through
`strings.ToLower` and `==`.  The model works on the *rune sequence* Go's `for range s` produces:
`decodeAll` is Go's UTF-8 decoder (`utf8.DecodeRuneInString`: any byte that does not start a
well-formed, shortest-form, non-surrogate sequence yields `U+FFFD` and is one byte wide).

**`strings.ToLower`** (Go 1.23): for a pure ASCII string the bytes `A`–`Z` are shifted, anything else goes
through `strings.Map(unicode.ToLower, s)`, which re-encodes every decoded rune (an invalid byte becomes a
real `U+FFFD`).  Both paths equal `encode ∘ map unicode.ToLower ∘ decode`, which is what `lower` is on
rune lists.  `lowerRune` is `unicode.ToLower` for **every** code point: the ASCII fast path, otherwise the
first range of `unicode.CaseRanges` that contains the rune (`Gen.lowerRanges` is that table, regenerated from
the toolchain that builds the code under test; Go searches it by bisection, the ranges are sorted and disjoint,
so "first match" is the same entry).  The table is Unicode aware: `U+212A KELVIN SIGN ↦ k` and
`U+0130 İ ↦ i` are the only two non-ASCII code points that lower-case into ASCII
(`C14.lower_ascii_preimage`), so `"Kill_thread"` parses as `kill_thread` in Go and in the model;
`U+017F ſ` and the full-width letters do not map into ASCII.

Iteration orders of Go maps are parameters (`order`), as is the slice that `FilterFlag.String` walks.
-/

namespace Text

/-! ## runes -/

/-- the code points of a (valid) string -/
def runes (s : String) : List Nat := s.toList.map Char.toNat

def isCont (b : Nat) : Bool := 0x80 ≤ b && b ≤ 0xBF

/-- `utf8.DecodeRune` on `b0 :: t`: the rune and the number of *further* bytes it consumed -/
def decodeOne (b0 : Nat) (t : List Nat) : Nat × Nat :=
  let bad : Nat × Nat := (0xFFFD, 0)
  if b0 < 0x80 then (b0, 0)
  else if b0 < 0xC2 then bad
  else if b0 < 0xE0 then
    match t with
    | b1 :: _ => if isCont b1 then ((b0 - 0xC0) * 64 + (b1 - 0x80), 1) else bad
    | _ => bad
  else if b0 < 0xF0 then
    match t with
    | b1 :: b2 :: _ =>
      let lo := if b0 = 0xE0 then 0xA0 else 0x80
      let hi := if b0 = 0xED then 0x9F else 0xBF
      if lo ≤ b1 && b1 ≤ hi && isCont b2 then
        (((b0 - 0xE0) * 64 + (b1 - 0x80)) * 64 + (b2 - 0x80), 2)
      else bad
    | _ => bad
  else if b0 < 0xF5 then
    match t with
    | b1 :: b2 :: b3 :: _ =>
      let lo := if b0 = 0xF0 then 0x90 else 0x80
      let hi := if b0 = 0xF4 then 0x8F else 0xBF
      if lo ≤ b1 && b1 ≤ hi && isCont b2 && isCont b3 then
        ((((b0 - 0xF0) * 64 + (b1 - 0x80)) * 64 + (b2 - 0x80)) * 64 + (b3 - 0x80), 3)
      else bad
    | _ => bad
  else bad

/-- the rune sequence of a Go string (`for _, r := range s`) -/
def decodeAll : List Nat → List Nat
  | [] => []
  | b :: t => (decodeOne b t).1 :: decodeAll (t.drop (decodeOne b t).2)
termination_by l => l.length
decreasing_by simp [List.length_drop]; omega

/-! ## `unicode.ToLower` -/

def lowerRange (cr : Gen.LowerRange) (r : Nat) : Nat :=
  if cr.ul then cr.lo + ((r - cr.lo) / 2 * 2 + 1) else r + cr.add - cr.sub

/-- `unicode.ToLower` -/
def lowerRune (r : Nat) : Nat :=
  if r < 128 then (if 65 ≤ r ∧ r ≤ 90 then r + 32 else r)
  else
    match Gen.lowerRanges.find? (fun cr => cr.lo ≤ r && r ≤ cr.hi) with
    | some cr => lowerRange cr r
    | none => r

/-- `strings.ToLower` on rune sequences -/
def lower (rs : List Nat) : List Nat := rs.map lowerRune

/-- ASCII lower-casing (what the documentation means by "case-insensitive") -/
def asciiLower (r : Nat) : Nat := if 65 ≤ r ∧ r ≤ 90 then r + 32 else r

/-! ## actions -/

/-- the loop of `Action.Unpack` over the map in iteration order `order`;
    `lowersInput`/`lowersName`: which sides of the comparison go through `strings.ToLower` -/
def unpackWith (order : List (Nat × String)) (lowersInput lowersName : Bool) (rs : List Nat) : Option Nat :=
  let s := if lowersInput then lower rs else rs
  (order.find? (fun e => (if lowersName then lower (runes e.2) else runes e.2) == s)).map (·.1)

/-- `Action.Unpack` on the rune sequence of its argument; `none` = the error return -/
def unpackActionRunes (rs : List Nat) : Option Nat :=
  unpackWith Gen.actionNames true false rs

/-- `Action.Unpack` -/
def unpackAction (s : String) : Option Word := (unpackActionRunes (runes s)).map (BitVec.ofNat 32)

/-- `Action.String` with the map in some iteration order (a lookup does not iterate; the order is
    a parameter so that independence of it can be stated) -/
def actionStringWith (order : List (Nat × String)) (a : Nat) : String :=
  match order.find? (fun e => e.1 == a) with
  | some e => e.2
  | none => "unknown"

/-- `Action.String` = `Action.MarshalText` -/
def actionString (a : Word) : String := actionStringWith Gen.actionNames a.toNat

/-! ## operations -/

def unpackOpWith (ops : List String) (lowersInput lowersName : Bool) (rs : List Nat) : Option String :=
  let s := if lowersInput then lower rs else rs
  ops.find? (fun n => (if lowersName then lower (runes n) else runes n) == s)

/-- `Operation.Unpack` on runes; `none` = the error return -/
def unpackOperationRunes (rs : List Nat) : Option String :=
  unpackOpWith Gen.operations true true rs

/-- `Operation.Unpack` -/
def unpackOperation (s : String) : Option String := unpackOperationRunes (runes s)

/-! ## primitives of the regenerated renderings of `Action.Unpack` / `Operation.Unpack` (`Gen/Unpack.lean`)

The state of such a function is what it has stored through its receiver so far (`none` = nothing);
its result is that state and whether it returned an error.  A `for … range` loop over a table is
`forRange` over the entries in iteration order; the body says whether the loop goes on. -/

/-- result of an `Unpack` rendering -/
inductive URes (α : Type) where
  | done (stored : Option α) (err : Bool)
  | opaque (what : String)            -- a statement or expression outside the translated subset
deriving Repr, DecidableEq

/-- what one iteration of the loop body does -/
inductive UCtl (α : Type) where
  | next (stored : Option α)          -- falls off the end of the body, or `continue`
  | ret (stored : Option α) (err : Bool)
  | opaque (what : String)

def forRange {κ ν α : Type} (body : κ → ν → Option α → UCtl α) (after : Option α → URes α) :
    List (κ × ν) → Option α → URes α
  | [], st => after st
  | (k, v) :: rest, st =>
    match body k v st with
    | .next st' => forRange body after rest st'
    | .ret st' e => .done st' e
    | .opaque w => .opaque w

/-- the reference answer in the rendering's result type: the parsed value is stored and nil returned,
    or nothing is stored and an error returned -/
def toURes {α : Type} : Option α → URes α
  | some a => .done (some a) false
  | none => .done none true

/-! ## filter flags -/

/-- the flag loop of `FilterFlag.String` over `(flag, name)` pairs in iteration order -/
def flagLoop : List (Nat × String) → Nat → List String → Nat × List String
  | [], f, acc => (f, acc)
  | (flag, name) :: rest, f, acc =>
    if f &&& flag ≠ 0 then flagLoop rest (f ^^^ flag) (acc ++ [name]) else flagLoop rest f acc

/-- map lookup `filterFlagNames[flag]` (zero value `""` when absent) -/
def lookupName (m : List (Nat × String)) (k : Nat) : String :=
  match m.find? (fun e => e.1 == k) with
  | some e => e.2
  | none => ""

def flagStringCore (m iter : List (Nat × String)) (f : Nat) : String :=
  match m.find? (fun e => e.1 == f) with
  | some e => e.2
  | none =>
    let r := flagLoop iter f []
    "|".intercalate (r.2 ++ (if r.1 ≠ 0 then ["unknown"] else []))

/-- `FilterFlag.String` as repaired by F8: walks the slice literal `order`, looks each name up in the map
    (`mapOrder` = the map's content in some iteration order; only looked up, never iterated) -/
def flagString (mapOrder : List (Nat × String)) (order : List Nat) (f : Nat) : String :=
  flagStringCore mapOrder (order.map (fun flag => (flag, lookupName mapOrder flag))) f

/-- `FilterFlag.String` of the pinned tree: `for flag, name := range filterFlagNames` -/
def flagStringMapOrder (mapOrder : List (Nat × String)) (f : Nat) : String :=
  flagStringCore mapOrder mapOrder f

/-- what the current source does (decided by the regenerated facts) -/
def flagStringNow (f : Nat) : String :=
  if Gen.flagStringRangesOverMap then flagStringMapOrder Gen.filterFlagNames f
  else flagString Gen.filterFlagNames Gen.flagOrder f

end Text
