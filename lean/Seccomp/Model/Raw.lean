import Seccomp.Model.Bpf
/-!
# Raw form (`sock_filter`), the kernel's checker and the kernel's interpreter (C05, C08)

`encode` mirrors x/net `bpf.Assemble` for the four instruction kinds the compiler emits (including the
*flipped* encodings of `≠ < ≤ ¬set`, which swap the two skip fields), `sockFilter` copies the fields
into `syscall.SockFilter` and `LoadFilter` stores `uint16(len)` into `sock_fprog`.
`kernelAccepts` is a port of `bpf_check_classic` + `seccomp_check_filter` for the opcodes that can
occur (every other opcode is rejected here; the kernel accepts more — that direction is irrelevant for
programs the compiler emits, and the negative differential tests only use rejected shapes).
`runRaw` is the kernel's meaning of each opcode.
-/

structure RawInsn where
  op : Nat      -- u16
  jt : Nat      -- u8
  jf : Nat      -- u8
  k : Nat       -- u32
deriving DecidableEq, Repr

def opLdAbsW : Nat := 0x20
def opJa : Nat := 0x05
def opJeqK : Nat := 0x15
def opJgtK : Nat := 0x25
def opJgeK : Nat := 0x35
def opJsetK : Nat := 0x45
def opRetK : Nat := 0x06

/-- `bpf.Assemble` for one instruction -/
def encode : Instr → RawInsn
  | .ld off => ⟨opLdAbsW, 0, 0, off⟩
  | .ja n => ⟨opJa, 0, 0, n⟩
  | .ret k => ⟨opRetK, 0, 0, k.toNat⟩
  | .jif c k jt jf =>
    match c with
    | .eq   => ⟨opJeqK, jt, jf, k.toNat⟩
    | .ne   => ⟨opJeqK, jf, jt, k.toNat⟩     -- flipped
    | .gt   => ⟨opJgtK, jt, jf, k.toNat⟩
    | .lt   => ⟨opJgeK, jf, jt, k.toNat⟩     -- flipped
    | .ge   => ⟨opJgeK, jt, jf, k.toNat⟩
    | .le   => ⟨opJgtK, jf, jt, k.toNat⟩     -- flipped
    | .set  => ⟨opJsetK, jt, jf, k.toNat⟩
    | .nset => ⟨opJsetK, jf, jt, k.toNat⟩    -- flipped

/-- the fields fit their widths (u8 skips, u32 operands) — otherwise `bpf.Assemble`/the conversions
    would truncate -/
def Instr.fitsRaw : Instr → Bool
  | .ld off => off < 4294967296
  | .ja n => n < 4294967296
  | .ret _ => true
  | .jif _ _ jt jf => jt ≤ 255 && jf ≤ 255

/-- the kernel's meaning of a raw program (suffix style, as `run`) -/
def runRaw (w : Nat → Word) : List RawInsn → Word → Result
  | [], a => .exit a
  | i :: rest, a =>
    if i.op = opLdAbsW then runRaw w rest (w i.k)
    else if i.op = opRetK then .ret (BitVec.ofNat 32 i.k)
    else if i.op = opJa then runRaw w (rest.drop i.k) a
    else if i.op = opJeqK then runRaw w (rest.drop (if a == BitVec.ofNat 32 i.k then i.jt else i.jf)) a
    else if i.op = opJgtK then runRaw w (rest.drop (if (BitVec.ofNat 32 i.k).ult a then i.jt else i.jf)) a
    else if i.op = opJgeK then runRaw w (rest.drop (if (BitVec.ofNat 32 i.k).ule a then i.jt else i.jf)) a
    else if i.op = opJsetK then runRaw w (rest.drop (if (a &&& BitVec.ofNat 32 i.k) != 0#32 then i.jt else i.jf)) a
    else .stuck
termination_by l => l.length
decreasing_by all_goals simp_wf <;> (try simp [List.length_drop]) <;> omega

/-- `bpf_check_classic` + `seccomp_check_filter`, per instruction at a position with `after`
    instructions behind it -/
def insnOk (i : RawInsn) (after : Nat) : Bool :=
  if i.op = opLdAbsW then i.k % 4 == 0 && i.k < 64
  else if i.op = opRetK then true
  else if i.op = opJa then i.k < after
  else if i.op = opJeqK || i.op = opJgtK || i.op = opJgeK || i.op = opJsetK then i.jt < after && i.jf < after
  else false

def allInsnOk : List RawInsn → Bool
  | [] => true
  | i :: rest => insnOk i rest.length && allInsnOk rest

def lastIsRet (p : List RawInsn) : Bool :=
  match p.getLast? with
  | some i => i.op == opRetK
  | none => false

/-- the kernel attaches the program (as far as the program itself is concerned) -/
def kernelAccepts (p : List RawInsn) : Bool :=
  1 ≤ p.length && p.length ≤ 4096 && allInsnOk p && lastIsRet p
