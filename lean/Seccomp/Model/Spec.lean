import Seccomp.Model.Event
/-!
# What a policy means

Written over *names*, as the user wrote the policy; no labels, no instructions, no
merging of entries.  This is the statement side of C01–C04.
-/

namespace Spec

/-- the unsigned 64-bit relation of an operation -/
def rel (op : Op) (a v : BitVec 64) : Bool :=
  match op with
  | .eq => a == v | .ne => a != v
  | .gt => v.toNat < a.toNat | .lt => a.toNat < v.toNat
  | .ge => v.toNat ≤ a.toNat | .le => a.toNat ≤ v.toNat
  | .set => (a &&& v) != 0#64 | .nset => (a &&& v) == 0#64

/-- a written condition holds for the event's arguments -/
def condHolds (c : Condition) (args : Nat → BitVec 64) : Bool :=
  match opOfString c.op with
  | some op => rel op (args c.arg) c.val
  | none => false

/-- the event's number is the number of `name` on the policy's architecture -/
def nameIs (A : ArchInfo) (nr : Word) (name : String) : Bool :=
  match A.number name with
  | some n => nr == n
  | none => false

/-- a group lists the event: by a plain name, or by a name whose (non-empty) condition
    list is satisfied (AND within the list; several lists for one name are alternatives) -/
def groupMatches (A : ArchInfo) (g : Group) (nr : Word) (args : Nat → BitVec 64) : Bool :=
  g.names.any (nameIs A nr) ||
  g.withConds.any (fun nc => nameIs A nr nc.name && !nc.conds.isEmpty && nc.conds.all (condHolds · args))

def enosys : Word := 0x00050026#32     -- SECCOMP_RET_ERRNO | ENOSYS(38)

/-- the decision of policy `p` on architecture `A` for an event -/
def decision (A : ArchInfo) (p : Policy) (ev : Event) : Word :=
  if ev.arch ≠ A.id then enc p.default
  else if A.id = auditArchX86_64 ∧ ev.nr.toNat ≥ 0x40000000 then enosys
  else
    match p.groups.find? (fun g => groupMatches A g ev.nr ev.args) with
    | some g => enc g.action
    | none => enc p.default

end Spec
