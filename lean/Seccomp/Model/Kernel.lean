/-!
# Abstract kernel and Go runtime, as far as the loader is concerned (C09–C11, C15)

A *world* is the seccomp-relevant state of one process: per thread the chain of attached filters
and the no_new_privs bit, the set of live threads, the thread the calling goroutine currently runs
on, the `runtime.LockOSThread` nesting count, whether the process is privileged (CAP_SYS_ADMIN),
and a **schedule oracle** `sched`: the threads the goroutine lands on at successive schedule points.
Quantifying over worlds quantifies over schedules.

Every kernel entry is a pure function `World → … × World` following seccomp(2) / prctl(2):

* unknown flag bits ⇒ EINVAL; TSYNC together with NEW_LISTENER ⇒ EINVAL; a program the verifier rejects ⇒ EINVAL (EFAULT for a nil pointer);
* neither no_new_privs on the *calling thread* nor privilege ⇒ EACCES;
* `SECCOMP_FILTER_FLAG_TSYNC`: all-or-nothing; if some other thread's chain is not an ancestor of the
  caller's, **nothing is attached and the thread's id is returned as a positive value with errno 0**;
* `SECCOMP_SET_MODE_STRICT` with non-zero flags ⇒ EINVAL without any state change.

Every kernel entry starts with a schedule point (`schedStep`): unless the goroutine is locked to its
thread it may have been moved.  The log records every kernel entry with the thread it ran on.
-/

abbrev Tid := Nat
abbrev FilterId := Nat

structure Thread where
  filters : List FilterId := []
  nnp : Bool := false
  strict : Bool := false
deriving Repr, DecidableEq

/-- what `uargs` points to: a `sock_fprog`; `ok` = the kernel's verifier accepts it -/
structure Prog where
  id : FilterId
  len : Nat
  ok : Bool
deriving Repr, DecidableEq

inductive KCall where
  | prctl (tid : Tid) (option a1 a2 a3 a4 : Nat)
  | seccomp (tid : Tid) (op flags : Nat) (prog : Option Prog)
deriving Repr, DecidableEq

/-- how a kernel without the syscall — or an outer filter / LSM that denies it, as container runtimes
    do — answers `seccomp(2)`: the errno differs, the effect (nothing happens) does not -/
inductive Refusal where
  | enosys | eperm | eacces | enomem | eagain | esrch | ebusy | eintr
deriving Repr, DecidableEq

structure World where
  thr : Tid → Thread
  live : List Tid
  cur : Tid
  lockCount : Nat := 0
  privileged : Bool
  sched : List Tid := []
  log : List KCall := []          -- most recent first
  seccompAvailable : Bool := true -- false: seccomp(2) is answered with `refusal`'s errno (old kernel, or an outer filter denies it)
  refusal : Refusal := .enosys    -- which errno that is: ENOSYS (no such syscall), EPERM or EACCES (denied by a profile),
                                  -- ENOMEM/EAGAIN/ESRCH/EBUSY (a kernel that cannot or will not take another filter)
  nnpAvailable : Bool := true     -- false: prctl(PR_SET_NO_NEW_PRIVS) answers EINVAL (kernel before 3.5, or an outer filter denies it)

/-! ## errno values and constants of the UAPI (checked against Gen.Consts in Proofs/C19) -/
def EPERM : Nat := 1
def E2BIG : Nat := 7
def EACCES : Nat := 13
def EFAULT : Nat := 14
def EINVAL : Nat := 22
def ENOSYS : Nat := 38

def Refusal.errno : Refusal → Nat
  | .enosys => ENOSYS
  | .eperm => EPERM
  | .eacces => EACCES
  | .enomem => 12     -- out of memory, or the per-thread budget of filter instructions is used up
  | .eagain => 11
  | .esrch => 3
  | .ebusy => 16
  | .eintr => 4      -- interrupted: what a retry loop would be written for

def PR_SET_NO_NEW_PRIVS : Nat := 38
def SECCOMP_SET_MODE_STRICT : Nat := 0
def SECCOMP_SET_MODE_FILTER : Nat := 1
def FLAG_TSYNC : Nat := 1
def FLAG_LOG : Nat := 2
def FLAG_NEW_LISTENER : Nat := 8
/-- Flag bits the modelled kernel knows: TSYNC, LOG, SPEC_ALLOW, NEW_LISTENER (a Linux 5.0–5.6 kernel).
    With NEW_LISTENER a successful `seccomp(2)` returns a listener descriptor — a **positive value with
    errno 0 that is not a refusal** — and the combination with TSYNC is refused (EINVAL) because the
    return value could not be told from a thread id.  Outside the model: TSYNC_ESRCH (16) and
    WAIT_KILLABLE_RECV (32), which the modelled kernel refuses like any unknown bit, and the rule that
    a chain holds at most one listener (EBUSY); the live histories use no flag word with bits 4 or 5
    and ask for a listener at most once per process. -/
def knownFlags : Nat := 15
def BPF_MAXINSNS : Nat := 4096

def World.upd (w : World) (t : Tid) (th : Thread) : World :=
  { w with thr := fun t' => if t' = t then th else w.thr t' }

/-- a schedule point: an unlocked goroutine continues on the next thread of the oracle (if alive) -/
def schedStep (w : World) : World :=
  if w.lockCount ≠ 0 then w else
    match w.sched with
    | [] => w
    | t :: rest => if t ∈ w.live then { w with cur := t, sched := rest } else { w with sched := rest }

def lockOSThread (w : World) : World := { w with lockCount := w.lockCount + 1 }
def unlockOSThread (w : World) : World := { w with lockCount := w.lockCount - 1 }

/-- `prctl(option, a1, a2, a3, a4)`; result `(r1, errno, world)` -/
def sysPrctl (option a1 a2 a3 a4 : Nat) (w : World) : Nat × Nat × World :=
  let w := schedStep w
  let w := { w with log := .prctl w.cur option a1 a2 a3 a4 :: w.log }
  if option = PR_SET_NO_NEW_PRIVS then
    if a1 = 1 ∧ a2 = 0 ∧ a3 = 0 ∧ a4 = 0 ∧ w.nnpAvailable = true then
      (0, 0, w.upd w.cur { w.thr w.cur with nnp := true })
    else (0, EINVAL, w)
  else (0, EINVAL, w)       -- other options are not modelled: the loader never issues them

/-- first other live thread whose filter chain is not an ancestor of the caller's (TSYNC is refused) -/
def cannotSync (w : World) : Option Tid :=
  w.live.find? fun t => t != w.cur && !((w.thr t).filters.isSuffixOf (w.thr w.cur).filters)

/-- `seccomp(op, flags, uargs)`; result `(r1, errno, world)` -/
def sysSeccomp (op flags : Nat) (uargs : Option Prog) (w : World) : Nat × Nat × World :=
  let w := schedStep w
  let w := { w with log := .seccomp w.cur op flags uargs :: w.log }
  if w.seccompAvailable = false then (0, w.refusal.errno, w)
  else if op = SECCOMP_SET_MODE_STRICT then
    if flags ≠ 0 ∨ uargs.isSome then (0, EINVAL, w)
    else (0, 0, w.upd w.cur { w.thr w.cur with strict := true })
  else if op = SECCOMP_SET_MODE_FILTER then
    if flags &&& knownFlags ≠ flags then (0, EINVAL, w)
    else if flags &&& FLAG_TSYNC ≠ 0 ∧ flags &&& FLAG_NEW_LISTENER ≠ 0 then (0, EINVAL, w)
    else match uargs with
      | none => (0, EFAULT, w)
      | some prog =>
        -- seccomp_prepare_filter: the length, then the privilege, then the verifier
        if prog.len = 0 ∨ prog.len > BPF_MAXINSNS then (0, EINVAL, w)
        else
          let me := w.thr w.cur
          if !(me.nnp || w.privileged) then (0, EACCES, w)
          else if !prog.ok then (0, EINVAL, w)
          else if flags &&& FLAG_TSYNC ≠ 0 then
            match cannotSync w with
            | some t => (t + 1, 0, w)         -- thread ids are positive
            | none =>
              let chain := prog.id :: me.filters
              (0, 0, { w with thr := fun t =>
                if t ∈ w.live then { w.thr t with filters := chain, nnp := (w.thr t).nnp || me.nnp } else w.thr t })
          else
            -- with NEW_LISTENER the result is the listener's descriptor (some positive number)
            (if flags &&& FLAG_NEW_LISTENER ≠ 0 then w.log.length + 2 else 0, 0,
              w.upd w.cur { me with filters := prog.id :: me.filters })
  else (0, EINVAL, w)

/-- a new thread is created by thread `parent`: it inherits chain and no_new_privs -/
def cloneThread (parent child : Tid) (w : World) : World :=
  if parent ∈ w.live ∧ child ∉ w.live then
    { w with live := child :: w.live, thr := fun t => if t = child then w.thr parent else w.thr t }
  else w

def exitThread (t : Tid) (w : World) : World :=
  if t ≠ w.cur then { w with live := w.live.filter (· ≠ t) } else w

/-! ## Go values the loader handles -/

inductive GoErr where
  | nil
  | errno (e : Nat)
  | wrapped (msg : String) (inner : GoErr)   -- fmt.Errorf("…: %w", err) and other non-nil errors
deriving Repr, DecidableEq

/-- what the pure part of `LoadFilter` (assemble, encode) produces for the filter's policy -/
inductive PolicyOutcome where
  | assembleFails          -- Policy.Assemble returns an error
  | encodeFails            -- bpf.Assemble returns an error
  | prog (p : Prog)        -- the raw program (identity, length, verifier verdict)
deriving Repr, DecidableEq

/-- `seccomp.Filter` -/
structure Filter where
  noNewPrivs : Bool
  flag : Nat
  policy : PolicyOutcome
deriving Repr, DecidableEq

/-- `filter.Policy.Assemble()`: `(insts, err)` -/
def policyAssemble (p : PolicyOutcome) : PolicyOutcome × GoErr :=
  match p with
  | .assembleFails => (.assembleFails, .wrapped "assemble" .nil)
  | p => (p, .nil)

/-- `bpf.Assemble(insts)`: `(raw, err)` -/
def bpfAssemble (p : PolicyOutcome) : PolicyOutcome × GoErr :=
  match p with
  | .encodeFails => (.encodeFails, .wrapped "encode" .nil)
  | p => (p, .nil)

/-- `sockFilter(raw)` -/
def sockFilter (p : PolicyOutcome) : PolicyOutcome := p

/-- `&syscall.SockFprog{Len: uint16(len(f)), Filter: &f[0]}` -/
def mkFprog (p : PolicyOutcome) : Option Prog :=
  match p with
  | .prog q => some { q with len := q.len % 65536 }
  | _ => none

/-- `copy(dst[:], src)` on lists -/
def copyInto (dst src : List Nat) : List Nat := src.take dst.length ++ dst.drop src.length

/-- Statements and results the translator could not render are steps of an arbitrary oracle: nothing
    can be proved about them, so every theorem quantifies over `U`. -/
structure Unsupported where
  step : String → World → World
  noReturnErr : GoErr
  noReturnBool : Bool
