import Seccomp.Model.Bpf
import Seccomp.Model.Tok
import Seccomp.Model.Asm
import Seccomp.Model.Lower
import Seccomp.Proofs.Lemmas.CompileEntries
