import Seccomp.Model.Bpf
import Seccomp.Model.Tok
import Seccomp.Model.Asm
import Seccomp.Model.Lower
import Seccomp.Model.Policy
import Seccomp.Model.Event
import Seccomp.Model.Spec
import Seccomp.Proofs.Lemmas.CompileEntries
