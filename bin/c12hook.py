"""Property-specific step of `bin/check C12`.

Runs after the proof build and the `tables` correspondence stream.  It searches the facts that
vextract regenerated from /repo (work/facts.json: the five tables, Info rows, alias map, audit
constants, GetInfo guard, generator literals, and the independent oracle sources) for the concrete
entry that breaks a theorem of lean/Seccomp/Proofs/C12.lean:

  duplicate name / duplicate number in a table            (table_names_unique, table_numbers_unique,
                                                            lookup_inverse, invert_deterministic)
  entry that disagrees with an oracle source              (table_agrees_with_oracles)
  alias that resolves to another row, unexpected keys     (aliases_resolve, alias_keys_expected)
  table-less row that is not reported / wrong guard       (tableless_arch_unsupported, getinfo_tie)
  Info.ID or auditArch* constant ≠ linux/audit.h          (audit_ids_equal_kernel, audit_consts_equal_kernel)
  SeccompMask                                             (x32_mask)
  ABI literal of the generator                            (abi_filter_matches_tbl_format)

Every finding becomes a violation whose replay names the entry (and, where the compiled package can
show it, a request line `TNAME/GETINFO …` that `bin/check C12 --replay` re-executes on the real
code).  The generator `arch/mk_syscalls_linux.go` downloads kernel sources and cannot run offline
as it is; a copy whose only change is the base URL (pointed at a local server that serves a
five-line `syscall_64.tbl` fixture) is executed on every run, so the ABI-column filter is observed
on the real generator code.

The hand-written expectations below are the same as in Proofs/C12.lean.
"""
import json, os, re, subprocess, tempfile, threading, shutil, http.server, socketserver, binascii

EXPECTED_ALIASES = {
    "arm": "arm", "ppc": "ppc", "ppc64": "ppc64", "ppc64le": "ppc64le", "s390": "s390", "s390x": "s390x",
    "mips": "mips", "mipsle": "mipsel", "mips64": "mips64",
    "i386": "i386", "386": "i386", "x32": "x32", "x86_64": "x86_64", "amd64": "x86_64",
    "aarch64": "aarch64", "arm64": "aarch64",
    "mips64n32": "mips64n32", "mips64p32": "mips64n32", "mipsel64": "mipsel64", "mips64le": "mipsel64",
    "mipsel64n32": "mipsel64n32", "mips64p32le": "mipsel64n32",
}
EXPECTED_TABLE = {"arm": "syscallsARM", "aarch64": "syscallsAARCH64", "i386": "syscalls386",
                  "x32": "syscallsX32", "x86_64": "syscallsX86_64"}
EXPECTED_GUARD = "!found || len(arch.SyscallNames) == 0"


def audit_name(row_name):
    return "AUDIT_ARCH_X86_64" if row_name == "x32" else "AUDIT_ARCH_" + row_name.upper()


def hexs(s):
    return binascii.hexlify(s.encode()).decode()


FIXTURE = {
    "/arch/arm/tools/syscall.tbl": "0\tcommon\trestart_syscall\tsys_restart_syscall\n7\toabi\twaitpid\tsys_waitpid\n3\tcommon\tread\tsys_read\n",
    "/arch/arm/include/uapi/asm/unistd.h": "#define __ARM_NR_breakpoint\t\t(__ARM_NR_BASE+1)\n",
    "/include/uapi/asm-generic/unistd.h": "#define __NR_io_setup 0\n#define __NR3264_fcntl 25\n#define __NR_syscalls 451\n",
    "/arch/x86/entry/syscalls/syscall_32.tbl": "0\ti386\trestart_syscall\tsys_restart_syscall\n11\ti386\texecve\tsys_execve\n",
    "/arch/x86/entry/syscalls/syscall_64.tbl": ("#\n# 64-bit system call numbers and entry vectors\n#\n"
                                                "0\tcommon\tread\t\t\tsys_read\n"
                                                "59\t64\texecve\t\t\tsys_execve\n"
                                                "322\t64\texecveat\t\tsys_execveat\n"
                                                "520\tx32\texecve\t\t\tcompat_sys_execve\n"
                                                "545\tx32\texecveat\t\tcompat_sys_execveat\n"),
}
FIXTURE_EXPECT = {"X32": {0: "read", 520: "execve", 545: "execveat"},
                  "X86_64": {0: "read", 59: "execve", 322: "execveat"}}


def run_generator_fixture(repo):
    """executes a copy of arch/mk_syscalls_linux.go (base URL → local fixture server); returns
    (tables or None, note)"""
    src_path = os.path.join(repo, "arch", "mk_syscalls_linux.go")
    try:
        src = open(src_path).read()
    except Exception as e:
        return None, "generator source not readable: %s" % e
    m = re.search(r'baseURL\s*=\s*"https://[^"]*"', src)
    if not m:
        return None, "generator has no recognisable baseURL constant; fixture run skipped"

    class H(http.server.BaseHTTPRequestHandler):
        def do_GET(self):
            path = self.path
            body = None
            for suffix, text in FIXTURE.items():
                if path.endswith(suffix):
                    body = text.encode()
            if body is None:
                self.send_response(404); self.end_headers(); return
            self.send_response(200)
            self.send_header("Content-Length", str(len(body)))
            self.end_headers()
            self.wfile.write(body)
        def log_message(self, *a):
            pass

    class S(socketserver.ThreadingMixIn, http.server.HTTPServer):
        daemon_threads = True
    try:
        srv = S(("127.0.0.1", 0), H)
    except Exception as e:
        return None, "cannot open a local fixture server: %s" % e
    port = srv.server_address[1]
    th = threading.Thread(target=srv.serve_forever, daemon=True)
    th.start()
    tmp = tempfile.mkdtemp(prefix="c12gen-")
    try:
        patched = src[:m.start()] + 'baseURL = "http://127.0.0.1:%d/"' % port + src[m.end():]
        open(os.path.join(tmp, "mk_syscalls_linux.go"), "w").write(patched)
        env = {k: v for k, v in os.environ.items() if k.lower() not in ("http_proxy", "https_proxy", "all_proxy", "goflags")}
        env.update(GOPROXY="off", GOSUMDB="off", GOTOOLCHAIN="local", CGO_ENABLED="0", GO111MODULE="off", NO_PROXY="127.0.0.1", no_proxy="127.0.0.1")
        try:
            p = subprocess.run(["go", "run", "mk_syscalls_linux.go", "-out", "out.go", "-version", "fixture"], cwd=tmp, env=env,
                               capture_output=True, text=True, timeout=300)
        except Exception as e:
            return None, "go run of the generator copy failed to start: %s" % e
        if p.returncode != 0 or not os.path.exists(os.path.join(tmp, "out.go")):
            return None, "generator copy exited %d: %s" % (p.returncode, (p.stderr or p.stdout)[-400:])
        out = open(os.path.join(tmp, "out.go")).read()
        tables = {}
        for tm in re.finditer(r"var syscalls(\w+) = map\[int\]string\{(.*?)\n\}", out, re.S):
            tables[tm.group(1)] = [(int(a), b) for a, b in re.findall(r'(\d+):\s*"([^"]*)"', tm.group(2))]
        return tables, "executed"
    finally:
        srv.shutdown()
        srv.server_close()
        shutil.rmtree(tmp, ignore_errors=True)


def hook(check, failed, mism):
    verif = os.path.dirname(os.path.dirname(os.path.abspath(__file__)))
    repo = os.environ.get("VERIF_REPO", "/repo")
    facts = json.load(open(os.path.join(verif, "work", "facts.json")))
    seen_keys = set(m.get("key") for m in mism if m.get("key"))
    found = []   # (key, text, body)

    def add(key, text, body):
        if key in seen_keys:
            return
        seen_keys.add(key)
        found.append((key, text, body))

    tables = facts.get("tables") or {}
    rows = facts.get("archRows") or []
    if len(rows) < 5 or len(tables) < 5:
        # The translator reads the `Info` rows and the tables as composite literals.  If the source declares
        # them differently (through constructor functions, say), nothing below can be said from the facts:
        # that is a broken tie, not a failing input — the compiled package is still compared by the stream.
        check.violation("c12:translator-rows", "the translator found %d Info rows and %d tables in arch/ (expected 16 and 5): "
                        "the declarations are not in the literal form it reads" % (len(rows), len(tables)), False,
                        "broken: translator vextract (arch rows / tables)\nbroken theorems: C12.rows_tables and everything stated over Gen.archRows\n")
        return
    row_by_var = {r["var"]: r for r in rows}
    arch_of_table = {r["table"]: r for r in rows if r.get("table")}
    oracle = facts.get("oracle", {})
    extra = {"tables": {t: len(es) for t, es in tables.items()},
             "oracle_sources": [{"id": s["id"], "table": s["table"], "available": s["available"], "entries": len(s["entries"]),
                                 "shared_with_table": s.get("shared"), "note": s.get("note", "")} for s in oracle.get("sources", [])],
             "audit_constants_from_kernel": len(oracle.get("auditArch", [])), "audit_note": oracle.get("auditNote", "")}

    # --- duplicate names / numbers
    for tname, es in tables.items():
        row = arch_of_table.get(tname, {"var": tname, "name": tname})
        by_name, by_num = {}, {}
        for e in es:
            by_name.setdefault(e["name"], []).append(e["num"])
            by_num.setdefault(e["num"], []).append(e["name"])
        dups = sorted((n, v) for n, v in by_name.items() if len(v) > 1)
        for n, v in dups[:3]:
            add("ambiguous:%s:%s" % (row["name"], n),
                "table %s: the name %r has the numbers %s; invert() keeps whichever the map iteration visits last" % (tname, n, v),
                "failing input: arch=%s name=%s numbers=%s (%d ambiguous names in %s: %s)\nrequest: TNAME %s %s\n"
                "broken theorems: C12.table_names_unique, lookup_inverse, invert_deterministic\n"
                % (row["name"], n, v, len(dups), tname, ",".join(d[0] for d in dups), row["var"], hexs(n)))
        for num, v in sorted((k, v) for k, v in by_num.items() if len(v) > 1)[:3]:
            add("dupnum:%s:%d" % (row["name"], num), "table %s: the number %d is listed twice (%s)" % (tname, num, v),
                "failing input: arch=%s number=%d names=%s\nrequest: TNUM %s %d\nbroken theorem: C12.table_numbers_unique\n" % (row["name"], num, v, row["var"], num))

    # --- oracle disagreement
    for s in oracle.get("sources", []):
        t, cnt = {}, {}
        for e in tables.get(s["table"], []):
            t.setdefault(e["name"], e["num"])
            cnt[e["name"]] = cnt.get(e["name"], 0) + 1
        row = arch_of_table.get(s["table"], {"var": s["table"], "name": s["table"]})
        n = 0
        for e in s["entries"]:
            if e["name"] in t and cnt[e["name"]] == 1 and t[e["name"]] != e["num"]:
                n += 1
                if n <= 2:
                    add("oracle:%s:%s" % (row["name"], e["name"]),
                        "table %s maps %r to %d, %s says %d" % (s["table"], e["name"], t[e["name"]], s["id"], e["num"]),
                        "failing input: arch=%s name=%s: the package says %d, %s (%s) says %d\nrequest: TNAME %s %s\nbroken theorem: C12.table_agrees_with_oracles\n"
                        % (row["name"], e["name"], t[e["name"]], s["id"], s.get("path", ""), e["num"], row["var"], hexs(e["name"])))

    # --- aliases
    arches = {a["key"]: a["var"] for a in facts.get("arches", [])}
    for k, v in sorted(arches.items()):
        r = row_by_var.get(v)
        exp = EXPECTED_ALIASES.get(k)
        if exp is None:
            add("alias-unexpected:%s" % k, "alias map has the key %r (→ %s) which the specification does not list" % (k, v),
                "failing input: arches[%r] = %s\nrequest: GETINFO %s\nbroken theorem: C12.alias_keys_expected (extend expectedAliases in Proofs/C12.lean, stream_tables.go and c12hook.py if the alias is intended)\n" % (k, v, hexs(k)))
        elif r is None or r["name"] != exp:
            add("getinfo:%s" % k, "alias %r resolves to %s (Info.Name %r), expected the architecture %r" % (k, v, r and r["name"], exp),
                "failing input: arch.GetInfo(%r) returns the Info named %r (variable %s); the property requires %r\nrequest: GETINFO %s\nbroken theorem: C12.aliases_resolve / resolve_expected\n"
                % (k, r and r["name"], v, exp, hexs(k)))
    for k in sorted(EXPECTED_ALIASES):
        if k not in arches:
            add("getinfo:%s" % k, "alias %r is missing from the alias map" % k,
                "failing input: arch.GetInfo(%r) is an error; the property requires the architecture %r\nrequest: GETINFO %s\nbroken theorem: C12.alias_keys_expected\n" % (k, EXPECTED_ALIASES[k], hexs(k)))

    # --- rows: tables, masks, audit ids
    audit = {a["name"]: a["val"] for a in oracle.get("auditArch", [])}
    guard = facts.get("getInfoGuard", "")
    for r in rows:
        exp_t = EXPECTED_TABLE.get(r["name"], "")
        if r.get("table", "") != exp_t or r.get("names", "") != exp_t:
            add("rowtable:%s" % r["var"], "Info %s uses SyscallNumbers=%r, SyscallNames=invert(%r); expected %r for both" % (r["var"], r.get("table"), r.get("names"), exp_t),
                "failing input: arch.%s: SyscallNumbers: %s, SyscallNames: invert(%s); architecture %s must use %r\nrequest: GETINFO %s\nbroken theorem: C12.rows_tables\n"
                % (r["var"], r.get("table") or "-", r.get("names") or "-", r["name"], exp_t or "no table", hexs(r["name"])))
        want_mask = 0x40000000 if r["name"] == "x32" else 0
        if r.get("mask", 0) != want_mask:
            add("mask:%s" % r["var"], "Info %s has SeccompMask 0x%x, expected 0x%x" % (r["var"], r.get("mask", 0), want_mask),
                "failing input: arch.%s.SeccompMask = 0x%x, expected 0x%x\nbroken theorem: C12.x32_mask\n" % (r["var"], r.get("mask", 0), want_mask))
        if audit:
            k = audit.get(audit_name(r["name"]))
            if k != r["id"]:
                add("audit:%s" % r["var"], "Info %s has ID 0x%x, the kernel's %s is %s" % (r["var"], r["id"], audit_name(r["name"]), "0x%x" % k if k is not None else "undefined"),
                    "failing input: arch.%s.ID = 0x%x but the kernel's %s = %s (linux/audit.h evaluated by gcc)\nbroken theorem: C12.audit_ids_equal_kernel\n"
                    % (r["var"], r["id"], audit_name(r["name"]), "0x%x" % k if k is not None else "undefined"))
    if audit:
        for c in facts.get("auditConsts", []):
            kname = "AUDIT_ARCH_" + c["name"][len("auditArch"):]
            if audit.get(kname) != c["val"]:
                add("auditconst:%s" % c["name"], "%s = 0x%x, the kernel's %s is %s" % (c["name"], c["val"], kname, "0x%x" % audit[kname] if kname in audit else "undefined"),
                    "failing input: arch/zarches.go %s = 0x%x but %s = %s (linux/audit.h evaluated by gcc)\nbroken theorem: C12.audit_consts_equal_kernel\n"
                    % (c["name"], c["val"], kname, "0x%x" % audit[kname] if kname in audit else "undefined"))

    # --- GetInfo itself: its body is regenerated as Gen.getInfoSkel and tied to Arch.getInfo by
    # C12.getinfo_tie (a broken tie is reported as a broken obligation); the compiled behaviour is
    # observed by the tables stream, which is where a failing input comes from.
    # --- generator ABI literals: observed on the real generator code with a fixture table
    abi = facts.get("abiSkip", {})
    gen_tables, note = run_generator_fixture(repo)
    extra["generator_fixture"] = {"status": note, "syscall_64.tbl": FIXTURE["/arch/x86/entry/syscalls/syscall_64.tbl"],
                                  "output": {k: v for k, v in (gen_tables or {}).items() if k in ("X32", "X86_64")},
                                  "literals": abi}
    gen_bad = False
    if gen_tables is not None:
        for arch, want in FIXTURE_EXPECT.items():
            got = gen_tables.get(arch)
            if got is None or dict(got) != want or len(got) != len(want):
                gen_bad = True
                dup = {}
                for num, name in got or []:
                    dup.setdefault(name, []).append(num)
                dd = {n: v for n, v in dup.items() if len(v) > 1}
                add("generator-abi:%s" % arch,
                    "mk_syscalls_linux.go build%s: on a five-row syscall_64.tbl the generated table is %s, expected %s" % (arch, got, sorted(want.items())),
                    "failing input (arch/x86/entry/syscalls/syscall_64.tbl served to a copy of the generator whose only change is the base URL):\n%s"
                    "generated syscalls%s = %s\nexpected           = %s\nnames with two numbers in the output: %s\n"
                    "ABI literal compared with the second column by build%s: %r (the column holds common / 64 / x32)\nbroken theorem: C12.abi_filter_matches_tbl_format\n"
                    % (FIXTURE["/arch/x86/entry/syscalls/syscall_64.tbl"], arch, got, sorted(want.items()), dd or "none", arch, abi.get("build" + arch)))
    if not gen_bad and (abi.get("buildX32") != "64" or abi.get("buildX86_64") != "x32"):
        # the fixture could not run (or did not show it): evaluate the one-line filter on a real row
        for fn, lit, row_abi, line in (("buildX32", abi.get("buildX32"), "64", "59\t64\texecve\t\t\tsys_execve"),
                                       ("buildX86_64", abi.get("buildX86_64"), "x32", "520\tx32\texecve\t\t\tcompat_sys_execve")):
            if lit != row_abi:
                add("generator-abi:%s" % fn[len("build"):],
                    "%s skips rows whose ABI column equals %r; the column value is %r" % (fn, lit, row_abi),
                    "failing input: syscall_64.tbl row %r: fields[1] == %r is false, so %s keeps the row (it must skip it); generator run: %s\nbroken theorem: C12.abi_filter_matches_tbl_format\n"
                    % (line, lit, fn, note))

    for key, text, body in found:
        check.violation(key, text, True, body)
    extra["hook_findings"] = [k for k, _, _ in found]
    check.ev.setdefault("extra", {})["c12_facts"] = extra
