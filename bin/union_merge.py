#!/usr/bin/env python3
"""resolve 'both sides added' conflicts by keeping both sides (ours first)"""
import re, sys
for path in sys.argv[1:]:
    s = open(path).read()
    s2 = re.sub(r'<<<<<<< [^\n]*\n(.*?)=======\n(.*?)>>>>>>> [^\n]*\n', lambda m: m.group(1) + m.group(2), s, flags=re.S)
    open(path, 'w').write(s2)
