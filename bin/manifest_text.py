"""claims per property for MANIFEST.json"""
COMMON_NOTE = ("Trusted: Lean 4.33 kernel; axioms ⊆ {propext, Classical.choice, Quot.sound} (audited per theorem on every run); "
               "the statements (Model/Spec, Bpf.run, Tok.runT, Event.words); the differential harness vdiff and the translator vextract. "
               "The theorems are about the hand-written executable model; the model is tied to /repo on every run by exact-output comparison on seeded generated inputs plus the regression corpus. ")
TEXT = {
 "C01": {"ref": "§6 C01", "technique": "Lean 4 proof (compile_correct by induction over groups/entries + assembler simulation invariant) + exact-output correspondence",
         "text": "Theorem C01.compile_correct: for every architecture description, both byte orders, every policy the model compiler accepts and every event, the compiled program returns Spec.decision; corollaries first_group_decides, kth_group_decides, default_if_unlisted, enc_exact. Unbounded in groups, names, program length. The model is compared instruction-for-instruction with Policy.Assemble on generated name-list policies (sizes up to the whole table, 4 architectures).",
         "note": COMMON_NOTE + "cBPF semantics of ld/jif/ja/ret is modelled (validated against the kernel under C08)."},
 "C02": {"ref": "§6 C02", "technique": "Lean 4 proof over BitVec 64 (hi/lo split lemmas, 8 operations) + correspondence in both byte orders",
         "text": "Theorems C02.cond_lowering_exact (single-condition policy answers the action iff number matches and the unsigned 64-bit relation holds, all 2^128 operand/value pairs per operation), cond_endian_independent, halves_read_correctly, cond_fragment_exact, rel_meaning. Correspondence compiles single-condition policies under both byte orders through the verif hook.",
         "note": COMMON_NOTE},
 "C03": {"ref": "§6 C03", "technique": "Lean 4 proof (entry/list/lists specs, merge lemma for toSyscallsWithConditions) + correspondence",
         "text": "Theorems C03.group_matches_iff (AND within a list, OR across lists), merge_is_or_of_lists (same-name merging), entry_matches_iff (falls through with nr reloaded), no_match_is_absent and no_leak_compiled (a non-matching entry can be removed without changing the decision of any event, for all argument values).",
         "note": COMMON_NOTE},
 "C04": {"ref": "§6 C04", "technique": "Lean 4 proof (prologue_spec for every program length, both jump encodings) + correspondence with boundary lengths",
         "text": "Theorems C04.foreign_arch_default, x32_enosys, no_x32_guard_elsewhere, prologue (independent of the group proofs), arch_jump_forms.",
         "note": COMMON_NOTE},
 "C05": {"ref": "§6 C05", "technique": "Lean 4 proof (return set closed; structural validity invariants) + correspondence",
         "text": "Theorem C05.compile_ret_closed: every accepted policy's filter always returns, and the value is enc default, enc of a group action, or ERRNO|ENOSYS on x86_64 (plus, as built: kernel-validity theorems, see evidence for the list of obligations).",
         "note": COMMON_NOTE + "The kernel checker is ported by hand and validated against the running kernel only."},
 "C06": {"ref": "§6 C06", "technique": "Lean 4 proof (simulation invariant of the backward label resolver, three-bridges lemma) + exact-output correspondence of the public builder",
         "text": "Theorems C06.assemble_sound (any label program of the public builder: resolved list = label program on every input, any distance), assemble_skips_fit (all skips ≤ 255), assemble_complete (forward-only programs never fail with 'backward'), assemble_closed. Correspondence: generated builder call sequences (distances 0..1024 incl. 255/256, both far, shared labels, malformed variants) compared output for output with Program.Assemble.",
         "note": COMMON_NOTE},
 "C07": {"ref": "§6 C07", "technique": "Lean 4 proof (problem-list monotonicity and invariants of toSyscallsWithConditions) + error-class/message correspondence with defect injection",
         "text": "Theorems C07.defective_rejected (each listed defect, at any position, yields an error), error_no_program, unknown_default_error / no_groups_error / no_tables_error (exact classes), accepted_conditions_valid and accepted_names_known (nothing is dropped silently). Go panics are caught by the harness and reported as PANIC, which the model never answers.",
         "note": COMMON_NOTE + "'valid ⇒ accepted' is established by the correspondence on generated valid policies and by accepted-examples in Lean; the general converse is not yet a theorem (stated in DESIGN.md)."},
}
TEXT["C09"] = {"ref": "§6 C09", "technique": "Lean 4 proof over the regenerated loader skeleton on an abstract kernel + live-kernel histories",
 "text": "Theorems C09.load_nil_implies_installed, failed_load_attaches_nothing, kernel_refusal_is_error (unknown flags, rejected/oversize program, missing privilege, refused thread-sync), failed_assemble_leaves_nothing, probe_pure — about Gen.loadFilter/Gen.supported, the Lean rendering of seccomp_linux.go regenerated from the source on every run, for all worlds, schedules and filters. Live correspondence: generated histories of real LoadFilter/Supported calls in child processes; return values and per-thread Seccomp_filters/NoNewPrivs from /proc compared with the skeleton run on the abstract kernel.",
 "note": COMMON_NOTE + "Partial: the kernel's seccomp/prctl semantics are modelled (Model/Kernel.lean), exercised on the host kernel only."}
TEXT["C10"] = {"ref": "§6 C10", "technique": "Lean 4 proof (invariant over all later histories on the abstract multi-thread kernel) + live runs with up to 63 threads",
 "text": "Theorems C10.flags_unmodified (the one seccomp call carries Filter.Flag, SET_MODE_FILTER and the compiled program), tsync_covers_existing, step_preserves and tsync_covers_all_threads (induction over every later history of clone/exit/seccomp/prctl/reschedule steps by any thread), no_tsync_touches_caller_only. Live: thread-sync loads with extra threads spinning, sleeping, blocked in read and spawning threads; every task in /proc and a thread created afterwards must carry the filter; the flag word captured by the hook must equal Filter.Flag.",
 "note": COMMON_NOTE + "Partial: atomicity of the kernel's TSYNC step is assumed; real interleavings are sampled."}
TEXT["C11"] = {"ref": "§6 C11", "technique": "Lean 4 proof over the regenerated skeleton with a schedule oracle + forced-migration live runs",
 "text": "Theorems C11.nnp_before_install_same_thread (the kernel log is prctl(38,1,0,0,0) then seccomp on the entry thread, for every schedule oracle), unprivileged_can_load, no_prctl_if_not_requested, nnp_untouched_if_not_requested, unprivileged_without_nnp_fails; the model exhibits the failing schedule for a loader without the lock (migration_breaks_unlocked_load). Live: unprivileged children, unpinned goroutine, migration attempts at the hook between prctl and seccomp.",
 "note": COMMON_NOTE + "Partial: the Go scheduler is modelled only as 'may move at a schedule point unless locked'."}
NOT_BUILT = {}
