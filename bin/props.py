"""Per-property configuration of bin/check: proof modules (obligations) and correspondence streams."""

TRUSTED_COMMON = [
    "Lean 4.33.0 kernel (thorough tier: re-checked by leanchecker); axioms per theorem as printed by #print axioms, allowed: propext, Classical.choice, Quot.sound; no sorry/admit/native_decide/bv_decide/own axioms (source audit on every run)",
    "the statements: Model/Spec.lean, Model/Bpf.lean (run), Model/Tok.lean (runT), Model/Event.lean (words), and the property files Proofs/Cxx.lean",
    "the correspondence harness (harness/cmd/vdiff, Go, linked against /repo built with -tags verif) and its generators; exact-output comparison with the executable model (lean_exe model)",
    "the translator harness/cmd/vextract (go/packages + go/types over /repo's working tree) which regenerates lean/Seccomp/Gen/*.lean on every run",
]

CBPF_TRUST = [
    "classic-BPF meaning of the four instruction kinds the compiler emits (Model/Bpf.lean) — validated against the running kernel under C08",
]


def policy_stream(profile, quick, thorough, corpus=None, seeds=3, extra=None):
    d = {"stream": "policy", "profile": profile, "quick": quick, "thorough": thorough, "thorough_seeds": seeds}
    if corpus:
        d["corpus"] = corpus
    if extra:
        d.update(extra)
    return d


PROPS = {
    "C01": {
        "lean": ["Seccomp.Proofs.C01"],
        "streams": [policy_stream("names", 1500, 30000, corpus="policy")],
        "trusted": CBPF_TRUST + ["x86_64/i386/arm/aarch64/x32 tables enter only through the correspondence (the theorems hold for every table)"],
        "assumptions": ["the model equals the code on the generated policies (exact instruction lists, all four table architectures, both byte orders); the theorem covers all policies of the model"],
    },
    "C02": {
        "lean": ["Seccomp.Proofs.C02"],
        "streams": [policy_stream("single", 3000, 60000, corpus="policy")],
        "trusted": CBPF_TRUST,
        "assumptions": ["little- and big-endian layouts are compiled through the verif hook VerifSetNativeEndian (the suite only runs big-endian, production little-endian)"],
    },
    "C03": {
        "lean": ["Seccomp.Proofs.C03"],
        "streams": [policy_stream("conds", 1500, 30000, corpus="policy")],
        "trusted": CBPF_TRUST,
        "assumptions": [],
    },
    "C04": {
        "lean": ["Seccomp.Proofs.C04"],
        "streams": [policy_stream("names", 600, 10000, corpus="policy"), policy_stream("long", 150, 3000, corpus="policy")],
        "trusted": CBPF_TRUST,
        "assumptions": [],
    },
    "C05": {
        "lean": ["Seccomp.Proofs.C05"],
        "streams": [policy_stream("mix", 500, 10000, corpus="policy"), policy_stream("defects", 500, 10000, corpus="policy")],
        "trusted": CBPF_TRUST + ["port of the kernel's classic-BPF/seccomp checker (Model/Raw.lean), validated against the running kernel only"],
        "assumptions": [],
    },
    "C06": {
        "lean": ["Seccomp.Proofs.C06"],
        "streams": [{"stream": "builder", "profile": "mix", "quick": 3000, "thorough": 100000, "thorough_seeds": 2, "corpus": "builder"},
                    policy_stream("long", 200, 4000, corpus="policy")],
        "trusted": CBPF_TRUST,
        "assumptions": [],
    },
    "C07": {
        "lean": ["Seccomp.Proofs.C07"],
        "streams": [policy_stream("defects", 3000, 60000, corpus="policy")],
        "trusted": ["Go panics are observed by recover() in the harness and reported as the reply PANIC (never produced by the model)"],
        "assumptions": ["the architecture-without-tables case is reached through arch.GetInfo (C12/C19), not through Policy.Assemble on this host"],
    },
    "C16": {
        "lean": ["Seccomp.Proofs.C16"],
        "streams": [{"stream": "disasm", "profile": "mix", "quick": 3000, "thorough": 100000, "thorough_seeds": 1, "corpus": "disasm"}],
        "trusted": ["the Lean transcriptions in Model/Disasm.lean of bufio.Scanner (ScanLines, 64 KiB limit), strings.Fields/Contains/HasPrefix/Join, the two regular expressions (leftmost-first, greedy) and strconv.ParseInt(s, 0, 64) — compared with the Go standard library through the parser on every run (disasm stream)",
                    "Go panics are observed by recover() in the harness and reported as the reply PANIC; the model answers PANIC exactly where one of its slicing/indexing primitives fails, and C16.parse_total proves that never happens"],
        "assumptions": ["read failures in the middle of a file cannot be injected into os.Open/bufio on the real code without a hook: the implementation is run on a directory (first read fails), a missing path and over-long lines (ErrTooLong after earlier lines were processed); failures after k lines are covered by the theorem on the model only",
                        "int is 64 bits wide on the host (int(num) is the identity)"],
    },
}
