"""Per-property configuration of bin/check: proof modules (obligations) and correspondence streams."""

TRUSTED_COMMON = [
    "Lean 4.33.0 kernel (thorough tier: re-checked by leanchecker); axioms per theorem as printed by #print axioms, allowed: propext, Classical.choice, Quot.sound; no sorry/admit/native_decide/bv_decide/own axioms (source audit on every run)",
    "the statements: Model/Spec.lean, Model/Bpf.lean (run), Model/Tok.lean (runT), Model/Event.lean (words), and the property files Proofs/Cxx.lean",
    "the correspondence harness (harness/cmd/vdiff, Go, linked against /repo built with -tags verif) and its generators; exact-output comparison with the executable model (lean_exe model)",
    "the translator harness/cmd/vextract (go/packages + go/types over /repo's working tree) which regenerates lean/Seccomp/Gen/*.lean on every run",
]

CBPF_TRUST = [
    "classic-BPF meaning of the four instruction kinds the compiler emits (Model/Bpf.lean) — validated against the running kernel under C08",
]


def _c12_hook(check, failed, mism):
    import c12hook
    c12hook.hook(check, failed, mism)


def policy_stream(profile, quick, thorough, corpus=None, seeds=3, extra=None):
    d = {"stream": "policy", "profile": profile, "quick": quick, "thorough": thorough, "thorough_seeds": seeds}
    if corpus:
        d["corpus"] = corpus
    if extra:
        d.update(extra)
    return d


PROPS = {
    "C01": {
        "lean": ["Seccomp.Proofs.C01"],
        "streams": [policy_stream("names", 1500, 30000, corpus="policy")],
        "trusted": CBPF_TRUST + ["x86_64/i386/arm/aarch64/x32 tables enter only through the correspondence (the theorems hold for every table)"],
        "assumptions": ["the model equals the code on the generated policies (exact instruction lists, all four table architectures, both byte orders); the theorem covers all policies of the model"],
    },
    "C02": {
        "lean": ["Seccomp.Proofs.C02"],
        "streams": [policy_stream("single", 3000, 60000, corpus="policy")],
        "trusted": CBPF_TRUST,
        "assumptions": ["little- and big-endian layouts are compiled through the verif hook VerifSetNativeEndian (the suite only runs big-endian, production little-endian)"],
    },
    "C03": {
        "lean": ["Seccomp.Proofs.C03"],
        "streams": [policy_stream("conds", 1500, 30000, corpus="policy")],
        "trusted": CBPF_TRUST,
        "assumptions": [],
    },
    "C04": {
        "lean": ["Seccomp.Proofs.C04"],
        "streams": [policy_stream("names", 600, 10000, corpus="policy"), policy_stream("long", 150, 3000, corpus="policy")],
        "trusted": CBPF_TRUST,
        "assumptions": [],
    },
    "C05": {
        "lean": ["Seccomp.Proofs.C05"],
        "streams": [policy_stream("mix", 500, 10000, corpus="policy"), policy_stream("defects", 500, 10000, corpus="policy")],
        "trusted": CBPF_TRUST + ["port of the kernel's classic-BPF/seccomp checker (Model/Raw.lean), validated against the running kernel only"],
        "assumptions": [],
    },
    "C06": {
        "lean": ["Seccomp.Proofs.C06"],
        "streams": [{"stream": "builder", "profile": "mix", "quick": 3000, "thorough": 100000, "thorough_seeds": 2, "corpus": "builder"},
                    policy_stream("long", 200, 4000, corpus="policy")],
        "trusted": CBPF_TRUST,
        "assumptions": [],
    },
    "C07": {
        "lean": ["Seccomp.Proofs.C07"],
        "streams": [policy_stream("defects", 3000, 60000, corpus="policy")],
        "trusted": ["Go panics are observed by recover() in the harness and reported as the reply PANIC (never produced by the model)"],
        "assumptions": ["the architecture-without-tables case is reached through arch.GetInfo (C12/C19), not through Policy.Assemble on this host"],
    },
    "C12": {
        "lean": ["Seccomp.Proofs.C12"],
        # -n = number of fresh processes whose complete name→number maps are compared
        "streams": [{"stream": "tables", "profile": "all", "quick": 5, "thorough": 20, "thorough_seeds": 1, "corpus": "C12", "timeout": 900}],
        "hook": _c12_hook,
        "hook_on_build_failure": True,   # a duplicate number is a Go compile error: the hook still names the entry
        "exhaustive": True,
        "rule": "finite: all five tables × every entry, every alias key, every Info row, every oracle source — decided completely by kernel evaluation and re-observed on the compiled package",
        "trusted": [
            "the independent sources as installed on this host: linux-libc-dev 6.1 UAPI headers (asm/unistd_64.h, unistd_32.h, unistd_x32.h, asm-generic/unistd.h evaluated by gcc with the six __ARCH_WANT_* macros of arm64 and 64-bit long; linux/audit.h + elf-em.h), Go 1.23 syscall/zsysnum_linux_*.go, golang.org/x/sys v0.19.0 / v0.29.0 / v0.48.0 zsysnum_linux_*.go; syscalls newer than 6.1 are covered by x/sys v0.48 only; the kernel's arm table is not installed, arm is compared with the Go sources only; x32 with unistd_x32.h only",
            "name normalisation of the sources (strip __NR_ / SYS_, lower-case; documented in harness/cmd/vextract/oracle.go) and the Nat coding of names emitted by the translator (Arch.enc; spot-checked at string level by C12.oracle_examples, injective by C12.name_code_injective)",
            "the hand-written expectations of Proofs/C12.lean: which alias names which Linux architecture, which architectures have tables, which AUDIT_ARCH_* constant belongs to which Info, the ABI column values of syscall_64.tbl (common/64/x32)",
            "gcc 12 as evaluator of the header macros",
        ],
        "assumptions": [
            "Go map semantics: a map literal holds exactly its entries; `range` visits each entry once in an unspecified order (the model quantifies over all orders)",
            "strings.ToLower is modelled by ASCII lower-casing plus U+0130→i, U+212A→k; that no other non-ASCII rune lower-cases into ASCII is checked for all 0x110000 code points of the toolchain in use on every run",
            "runtime.GOARCH is a parameter of the model (the empty name); only amd64 is executed on this host",
            "the generator arch/mk_syscalls_linux.go cannot download kernel sources offline: its ABI-column filter is checked as a regenerated literal and by executing a copy (base URL redirected to a local five-row fixture), not by regenerating zsyscalls.go",
        ],
    },
}
