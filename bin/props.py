"""Per-property configuration of bin/check: proof modules (obligations) and correspondence streams."""

TRUSTED_COMMON = [
    "Lean 4.33.0 kernel (thorough tier: re-checked by leanchecker); axioms per theorem as printed by #print axioms, allowed: propext, Classical.choice, Quot.sound; no sorry/admit/native_decide/bv_decide/own axioms (source audit on every run)",
    "the statements: Model/Spec.lean, Model/Bpf.lean (run), Model/Tok.lean (runT), Model/Event.lean (words), and the property files Proofs/Cxx.lean",
    "the correspondence harness (harness/cmd/vdiff, Go, linked against /repo built with -tags verif) and its generators; exact-output comparison with the executable model (lean_exe model)",
    "the translator harness/cmd/vextract (go/packages + go/types over /repo's working tree) which regenerates lean/Seccomp/Gen/*.lean on every run",
]

CBPF_TRUST = [
    "classic-BPF meaning of the four instruction kinds the compiler emits (Model/Bpf.lean) — validated against the running kernel under C08",
]


KERNEL_TRUST = [
    "abstract kernel Model/Kernel.lean: seccomp(2)/prctl(2) semantics incl. TSYNC all-or-nothing with the positive-tid refusal, EACCES without no_new_privs/CAP_SYS_ADMIN, EINVAL for unknown flags / rejected programs — modelled, validated against the running kernel (6.18) by live histories",
    "the skeleton translator (harness/cmd/vextract/skeleton.go): Go statement subset → Lean state-passing definitions (Gen/Skeletons.lean); anything outside the subset becomes an opaque step of an arbitrary oracle U",
]


CACHE_TRUST = [
    "file-system step machine Model/Cache.lean: primitive steps open/read/create/createTemp/buffered write/flush/close/rename/remove/run-disassembler, process crash after any step, I/O fault at any step, arbitrary split of buffered output (modelled; validated against the built profiler by run histories on this host)",
    "the cache-skeleton translator (harness/cmd/vextract/cache.go + skeleton.go): Go statement subset → Lean state-passing definitions (Gen/CacheSkeleton.lean); anything outside the subset becomes an opaque step of an arbitrary oracle U; tied to the hand-written CacheSpec by theorem C17.tie",
    "the driver harness/cmd/vprof: private HOME (child uid without passwd entry), fake `go tool objdump` that prints in chunks, fails, is absent, and reports chunk boundaries so that the profiler is killed exactly there",
]


def policy_stream(profile, quick, thorough, corpus=None, seeds=3, extra=None):
    d = {"stream": "policy", "profile": profile, "quick": quick, "thorough": thorough, "thorough_seeds": seeds}
    if corpus:
        d["corpus"] = corpus
    if extra:
        d.update(extra)
    return d


PROPS = {
    "C01": {
        "lean": ["Seccomp.Proofs.C01"],
        "streams": [policy_stream("names", 1500, 30000, corpus="policy")],
        "trusted": CBPF_TRUST + ["x86_64/i386/arm/aarch64/x32 tables enter only through the correspondence (the theorems hold for every table)"],
        "assumptions": ["the model equals the code on the generated policies (exact instruction lists, all four table architectures, both byte orders); the theorem covers all policies of the model"],
    },
    "C02": {
        "lean": ["Seccomp.Proofs.C02"],
        "streams": [policy_stream("single", 3000, 60000, corpus="policy")],
        "trusted": CBPF_TRUST,
        "assumptions": ["little- and big-endian layouts are compiled through the verif hook VerifSetNativeEndian (the suite only runs big-endian, production little-endian)"],
    },
    "C03": {
        "lean": ["Seccomp.Proofs.C03"],
        "streams": [policy_stream("conds", 1500, 30000, corpus="policy")],
        "trusted": CBPF_TRUST,
        "assumptions": [],
    },
    "C04": {
        "lean": ["Seccomp.Proofs.C04"],
        "streams": [policy_stream("names", 600, 10000, corpus="policy"), policy_stream("long", 150, 3000, corpus="policy")],
        "trusted": CBPF_TRUST,
        "assumptions": [],
    },
    "C05": {
        "lean": ["Seccomp.Proofs.C05"],
        "streams": [policy_stream("mix", 500, 10000, corpus="policy"), policy_stream("defects", 500, 10000, corpus="policy")],
        "trusted": CBPF_TRUST + ["port of the kernel's classic-BPF/seccomp checker (Model/Raw.lean), validated against the running kernel only"],
        "assumptions": [],
    },
    "C06": {
        "lean": ["Seccomp.Proofs.C06"],
        "streams": [{"stream": "builder", "profile": "mix", "quick": 3000, "thorough": 100000, "thorough_seeds": 2, "corpus": "builder"},
                    policy_stream("long", 200, 4000, corpus="policy")],
        "trusted": CBPF_TRUST,
        "assumptions": [],
    },
    "C07": {
        "lean": ["Seccomp.Proofs.C07"],
        "streams": [policy_stream("defects", 3000, 60000, corpus="policy")],
        "trusted": ["Go panics are observed by recover() in the harness and reported as the reply PANIC (never produced by the model)"],
        "assumptions": ["the architecture-without-tables case is reached through arch.GetInfo (C12/C19), not through Policy.Assemble on this host"],
    },
    "C09": {
        "lean": ["Seccomp.Proofs.C09"],
        "streams": [{"tool": "vprobe", "stream": "kernel", "profile": "load", "quick": 60, "thorough": 1500, "thorough_seeds": 2, "args": ["-profile", "load"]}],
        "trusted": KERNEL_TRUST,
        "assumptions": ["kernel semantics of seccomp(2)/prctl(2) as modelled in Model/Kernel.lean (validated against the running kernel by the histories of this run, on this kernel only)"],
    },
    "C10": {
        "lean": ["Seccomp.Proofs.C10"],
        "streams": [{"tool": "vprobe", "stream": "kernel", "profile": "tsync", "quick": 40, "thorough": 800, "thorough_seeds": 2, "args": ["-profile", "tsync"]}],
        "trusted": KERNEL_TRUST,
        "assumptions": ["the kernel performs a thread-sync attach as one atomic step (sighand->siglock + cred_guard_mutex): assumption about Linux, modelled by sysSeccomp",
                        "interleavings of real threads are sampled (up to 63 extra threads spinning, sleeping, blocked in read, spawning threads), not enumerated"],
    },
    "C11": {
        "lean": ["Seccomp.Proofs.C11"],
        "streams": [{"tool": "vprobe", "stream": "kernel", "profile": "nnp", "quick": 60, "thorough": 1500, "thorough_seeds": 2, "args": ["-profile", "nnp"]}],
        "trusted": KERNEL_TRUST,
        "assumptions": ["the Go scheduler is modelled as: the goroutine may continue on any live thread at a schedule point unless runtime.LockOSThread is in effect",
                        "the harness forces migration attempts at the hook between prctl and seccomp (sleep + Gosched with busy Ps)"],
    },
    "C17": {
        "lean": ["Seccomp.Proofs.C17"],
        "streams": [{"tool": "vprof", "stream": "profiler", "profile": "cache", "quick": 60, "thorough": 1500, "thorough_seeds": 2, "args": ["-profile", "cache"], "timeout": 1500}],
        "trusted": CACHE_TRUST,
        "assumptions": ["rename(2) replaces the cache path atomically: at every instant it holds its previous content or the complete content of the temporary file (Model/Cache.lean osRename; an assumption about the file system, not proved)",
                        "a file is identified with its path; writes to one path do not change another; bytes buffered in the bufio.Writer are lost at a crash, bytes handed to write(2) are in the file (no torn or reordered page-cache write-back after a machine crash is modelled: the crash is a process crash)",
                        "SHA-256 identifies the binary and the disassembly is a function of the binary (theorem hypothesis `listing = L hash`)",
                        "crash points on the real binary are sampled (SIGKILL at the 7 chunk boundaries of the disassembler's output, disassembler failing after j chunks, missing tool, rebuilt binary); crash points inside Flush/Close/Rename and I/O faults are covered by the theorem on the model only"],
    },
    "C18": {
        "lean": ["Seccomp.Proofs.C18"],
        "streams": [{"tool": "vprof", "stream": "profiler", "profile": "profile", "quick": 600, "thorough": 20000, "thorough_seeds": 2, "args": ["-profile", "profile"], "timeout": 3000},
                    {"tool": "vprof", "stream": "profiler", "profile": "overlap", "quick": 200, "thorough": 5000, "thorough_seeds": 1, "args": ["-profile", "overlap"], "timeout": 3000}],
        "trusted": CBPF_TRUST + ["the driver harness/cmd/vprof (synthetic listings, flag spellings, YAML read-back through go-ucfg exactly as cmd/sandbox parsePolicy, go/parser for the code output)",
                                 "disasm.ExtractSyscalls supplies the found sites of each synthetic listing (its own correctness is C16)"],
        "assumptions": ["sort.Strings orders byte-wise; Lean's String order is by code point, which is the same order on valid UTF-8 (all table names are ASCII)",
                        "overlapping blacklist / allow list (outside the property's 'disjoint' clause) is checked in its own stream against the documented behaviour 'allow: always include them in the profile'"],
    },
}
