"""Per-property configuration of bin/check: proof modules (obligations) and correspondence streams."""
import os as _os

_VERIF = _os.path.dirname(_os.path.dirname(_os.path.abspath(__file__)))
_MODEL = _os.path.join(_VERIF, "lean", ".lake", "build", "bin", "model")
_HBIN = _os.path.join(_VERIF, "harness", "bin")


def _race_build():
    """second copy of vdiff built with the race detector (needs cgo; works offline here: gcc + the toolchain's race runtime).
    For a scratch copy of the repository (VERIF_REPO) bin/check has written harness/go.alt.mod before this command runs."""
    repo = _os.environ.get("VERIF_REPO", "/repo")
    flags = "-mod=mod" + (" -modfile=go.alt.mod" if _os.path.realpath(repo) != "/repo" else "")
    return {"cmd": ["go", "build", "-race", "-tags", "verif", "-o", _os.path.join(_HBIN, "vdiff-race"), "./cmd/vdiff"],
            "env": {"CGO_ENABLED": "1", "GOFLAGS": flags}}

TRUSTED_COMMON = [
    "Lean 4.33.0 kernel (thorough tier: re-checked by leanchecker); axioms per theorem as printed by #print axioms, allowed: propext, Classical.choice, Quot.sound; no sorry/admit/native_decide/bv_decide/own axioms (source audit on every run)",
    "the statements: Model/Spec.lean, Model/Bpf.lean (run), Model/Tok.lean (runT), Model/Event.lean (words), and the property files Proofs/Cxx.lean",
    "the correspondence harness (harness/cmd/vdiff, Go, linked against /repo built with -tags verif) and its generators; exact-output comparison with the executable model (lean_exe model)",
    "the translator harness/cmd/vextract (go/packages + go/types over /repo's working tree) which regenerates lean/Seccomp/Gen/*.lean on every run",
]

CBPF_TRUST = [
    "classic-BPF meaning of the four instruction kinds the compiler emits (Model/Bpf.lean) — validated against the running kernel under C08",
]


KERNEL_TRUST = [
    "abstract kernel Model/Kernel.lean: seccomp(2)/prctl(2) semantics incl. TSYNC all-or-nothing with the positive-tid refusal, EACCES without no_new_privs/CAP_SYS_ADMIN, EINVAL for unknown flags / rejected programs — modelled, validated against the running kernel (6.18) by live histories",
    "the skeleton translator (harness/cmd/vextract/skeleton.go): Go statement subset → Lean state-passing definitions (Gen/Skeletons.lean); anything outside the subset becomes an opaque step of an arbitrary oracle U",
]
from hooks_c19 import hook as c19_hook, replay as c19_replay   # C19: names the (target, constant, value, expected) behind a broken theorem
def _c12_hook(check, failed, mism):
    import c12hook
    c12hook.hook(check, failed, mism)


CACHE_TRUST = [
    "file-system step machine Model/Cache.lean: primitive steps open/read/create/createTemp/buffered write/flush/close/rename/remove/run-disassembler, process crash after any step, I/O fault at any step, arbitrary split of buffered output (modelled; validated against the built profiler by run histories on this host)",
    "the cache-skeleton translator (harness/cmd/vextract/cache.go + skeleton.go): Go statement subset → Lean state-passing definitions (Gen/CacheSkeleton.lean); anything outside the subset becomes an opaque step of an arbitrary oracle U; tied to the hand-written CacheSpec by theorem C17.tie",
    "the driver harness/cmd/vprof: private HOME (child uid without passwd entry), fake `go tool objdump` that prints in chunks, fails, is absent, and reports chunk boundaries so that the profiler is killed exactly there",
]


def policy_stream(profile, quick, thorough, corpus=None, seeds=3, extra=None):
    d = {"stream": "policy", "profile": profile, "quick": quick, "thorough": thorough, "thorough_seeds": seeds}
    if corpus:
        d["corpus"] = corpus
    if extra:
        d.update(extra)
    return d


PROPS = {
    "C01": {
        "lean": ["Seccomp.Proofs.C01"],
        "streams": [policy_stream("names", 1500, 15000, corpus="policy", seeds=2), policy_stream("mix", 300, 3000, corpus="policy")],
        "trusted": CBPF_TRUST + ["x86_64/i386/arm/aarch64/x32 tables enter only through the correspondence (the theorems hold for every table)"],
        "assumptions": ["the model equals the code on the generated policies (exact instruction lists, all four table architectures, both byte orders); the theorem covers all policies of the model"],
    },
    "C02": {
        "lean": ["Seccomp.Proofs.C02"],
        "streams": [policy_stream("single", 3000, 60000, corpus="policy")],
        "trusted": CBPF_TRUST,
        "assumptions": ["little- and big-endian layouts are compiled through the verif hook VerifSetNativeEndian (the suite only runs big-endian, production little-endian)"],
    },
    "C03": {
        "lean": ["Seccomp.Proofs.C03"],
        "streams": [policy_stream("conds", 1500, 15000, corpus="policy", seeds=2), policy_stream("long", 150, 1500, corpus="policy", seeds=2)],
        "trusted": CBPF_TRUST,
        "assumptions": [],
    },
    "C04": {
        "lean": ["Seccomp.Proofs.C04"],
        "streams": [policy_stream("boundary", 600, 5000, corpus="policy", seeds=2), policy_stream("names", 400, 3000, corpus="policy", seeds=2), policy_stream("long", 100, 1000, corpus="policy", seeds=2)],
        "trusted": CBPF_TRUST,
        "assumptions": [],
    },
    "C05": {
        "lean": ["Seccomp.Proofs.C05"],
        "streams": [policy_stream("mix", 500, 5000, corpus="policy", seeds=2), policy_stream("defects", 500, 5000, corpus="policy", seeds=2)],
        "trusted": CBPF_TRUST + ["port of the kernel's classic-BPF/seccomp checker (Model/Raw.lean), validated against the running kernel only"],
        "assumptions": [],
    },
    "C06": {
        "lean": ["Seccomp.Proofs.C06"],
        "streams": [{"stream": "builder", "profile": "mix", "quick": 3000, "thorough": 50000, "thorough_seeds": 2, "corpus": "builder"},
                    policy_stream("long", 200, 2000, corpus="policy", seeds=2)],
        "trusted": CBPF_TRUST,
        "assumptions": [],
    },
    "C07": {
        "lean": ["Seccomp.Proofs.C07"],
        "streams": [policy_stream("defects", 3000, 30000, corpus="policy", seeds=2),
                    policy_stream("limit", 48, 600, seeds=2)],
        "trusted": ["Go panics are observed by recover() in the harness and reported as the reply PANIC (never produced by the model)"],
        "assumptions": ["the architecture-without-tables case is reached through arch.GetInfo (C12/C19), not through Policy.Assemble on this host"],
    },
    "C08": {
        "lean": ["Seccomp.Proofs.C08"],
        "streams": [{"stream": "raw", "profile": "mix", "quick": 2000, "thorough": 20000, "thorough_seeds": 2},
                    {"tool": "vprobe", "stream": "kernel", "profile": "decide", "quick": 60, "thorough": 400, "thorough_seeds": 2, "args": ["-profile", "decide"]},
                    {"tool": "vprobe", "stream": "kernel", "profile": "verifier", "quick": 60, "thorough": 500, "thorough_seeds": 2, "args": ["-profile", "verifier"]},
                    {"tool": "vprobe", "stream": "kernel", "profile": "load", "quick": 20, "thorough": 300, "args": ["-profile", "load"]},
                    {"tool": "vprobe", "stream": "kernel", "profile": "par", "quick": 40, "thorough": 500, "args": ["-profile", "par"]}],
        "trusted": CBPF_TRUST + ["the kernel's classic-BPF interpreter, checker and action handling (Model/Raw.lean: runRaw, kernelAccepts; Proofs/C08.lean: outcome) are modelled, not verified; validated against the running kernel (6.18) on every run",
                                 "the kernel's loop over a chain of filters (Model/Chain.lean: keep the value with the smallest signed action part, newest filter first) is modelled, not verified; validated live: one decide case in three loads a second policy on top of the first and the kernel's answers are compared with Chain.chain",
                                 "x/net bpf.Assemble for the four instruction kinds is modelled by `encode` (raw stream: exact equality)"],
        "assumptions": ["decisions are observed for harmless probe syscalls only (they ignore their registers), on x86_64, on the host kernel",
                        "kill_thread / trap / trace actions are covered at model level (outcome_classes) but not exercised live (a killed runtime thread hangs a Go child)"],
    },
    "C09": {
        "lean": ["Seccomp.Proofs.C09"],
        "streams": [{"tool": "vprobe", "stream": "kernel", "profile": "load", "quick": 60, "thorough": 1500, "thorough_seeds": 2, "args": ["-profile", "load"]},
                    {"tool": "vprobe", "stream": "kernel", "profile": "par", "quick": 80, "thorough": 1000, "thorough_seeds": 2, "args": ["-profile", "par"]}],
        "trusted": KERNEL_TRUST,
        "assumptions": ["kernel semantics of seccomp(2)/prctl(2) as modelled in Model/Kernel.lean (validated against the running kernel by the histories of this run, on this kernel only): refusal order length → privilege → verifier; two faults (seccomp(2) → ENOSYS, prctl(PR_SET_NO_NEW_PRIVS) → EINVAL), both injected live by an outer filter",
                        "flag bits 16/32 (TSYNC_ESRCH, WAIT_KILLABLE_RECV) and the one-listener-per-chain rule (EBUSY) are outside the model: the modelled kernel knows TSYNC, LOG, SPEC_ALLOW, NEW_LISTENER (knownFlags = 15) and refuses the rest; no live history uses bits 4/5, and a listener is asked for at most once per process"],
    },
    "C10": {
        "lean": ["Seccomp.Proofs.C10"],
        "streams": [{"tool": "vprobe", "stream": "kernel", "profile": "tsync", "quick": 40, "thorough": 800, "thorough_seeds": 2, "args": ["-profile", "tsync"]}],
        "trusted": KERNEL_TRUST,
        "assumptions": ["the kernel performs a thread-sync attach as one atomic step (sighand->siglock + cred_guard_mutex): assumption about Linux, modelled by sysSeccomp",
                        "interleavings of real threads are sampled (up to 63 extra threads spinning, sleeping, blocked in read, spawning threads), not enumerated"],
    },
    "C11": {
        "lean": ["Seccomp.Proofs.C11"],
        "streams": [{"tool": "vprobe", "stream": "kernel", "profile": "nnp", "quick": 60, "thorough": 1500, "thorough_seeds": 2, "args": ["-profile", "nnp"]}],
        "trusted": KERNEL_TRUST,
        "assumptions": ["the Go scheduler is modelled as: the goroutine may continue on any live thread at a schedule point unless runtime.LockOSThread is in effect",
                        "the harness forces migration attempts at the hook between prctl and seccomp (sleep + Gosched with busy Ps)",
                        "a kernel that refuses PR_SET_NO_NEW_PRIVS is part of the model (World.nnpAvailable) and of the live histories (outer filter answering EINVAL, privileged children only: an unprivileged child could not install the outer filter without the bit)"],
    },
    "C15": {
        "lean": ["Seccomp.Proofs.C15"],
        "streams": [{"tool": "vprobe", "stream": "kernel", "profile": "sandbox", "quick": 240, "thorough": 3000, "thorough_seeds": 2, "args": ["-profile", "sandbox"]}],
        "trusted": ["the sandbox translator (harness/cmd/vextract/sandbox.go): statement subset of cmd/sandbox main → Gen/SandboxSkeleton.lean; the outcomes of parsePolicy / LoadFilter / cmd.Run are oracles of the world",
                    "exec and filter inheritance by the child image are kernel behaviour (assumed; exercised by the live runs)"],
        "assumptions": ["what a nil LoadFilter result means is C09; that the filter decides as the policy says is C01/C08; that the YAML path denotes the policy is C14",
                        "live runs use errno/allow/log actions only (a killed target is indistinguishable from a failing one at the sandbox's exit status)"],
    },
    "C19": {
        "wasm_probe": True,
        "lean": ["Seccomp.Proofs.C19"],
        # one pass over the facts; thorough additionally runs go build + go vet for every target (scratch GOCACHE)
        "streams": [{"stream": "consts", "profile": "targets", "quick": 1, "thorough": 1, "timeout": 3000}],
        "hook": c19_hook,
        "replay": c19_replay,
        "exhaustive": True,
        "trusted": ["go/packages + go/types constant evaluation under each GOOS/GOARCH (the translator's per-target rows); the linux/amd64 row is compared with the compiled package on every run, every row with `go build`/`go vet` in the thorough tier",
                    "the installed kernel UAPI headers and gcc (oracle Gen.uapi); one hand-written oracle row: ENOSYS = 89 on linux/mips* (no MIPS headers installed), documented in Proofs/C19.lean; the hand-written list GOARCH -> AUDIT_ARCH_* macro name (C19.auditMacroOfGoarch, thirteen ports) whose values come from linux/audit.h through gcc",
                    "the probes for linux/386 (run natively) and js/wasm (run by node) are built with the verif tag: they compile three valid and sixteen defective fixed policies for each of the five tables through VerifSetArch and must print what this process computes",
                    "`no call expression in the body` is taken as `performs no system call` for the three stubs (the stub file declares nothing else and imports nothing)"],
        "assumptions": ["the target list is `go tool dist list` of the installed toolchain (go1.23.5: 49 pairs) in the thorough tier and a 14-target cross-section (9 linux ports incl. 2 MIPS, darwin, windows, freebsd, js/wasm, plan9) in the quick tier",
                        "targets are loaded with CGO_ENABLED=0; the two commands cannot be linked without cgo on android/386, android/amd64, android/arm, ios/* (toolchain restriction) — there the statements range over the library packages, which type-check on all targets",
                        "Policy.Assemble takes its architecture from arch.GetInfo(\"\") only (filter.go), so `GetInfo(\"\")` errors ⇒ no filter; the model side is C07.defective_rejected (noTables)"],
    },
    "C16": {
        "lean": ["Seccomp.Proofs.C16"],
        "streams": [{"stream": "disasm", "profile": "mix", "quick": 3000, "thorough": 100000, "thorough_seeds": 1, "corpus": "disasm"}],
        "trusted": ["the Lean transcriptions in Model/Disasm.lean of bufio.Scanner (ScanLines, 64 KiB limit), strings.Fields/Contains/HasPrefix/Join, the two regular expressions (leftmost-first, greedy) and strconv.ParseInt(s, 0, 64) — compared with the Go standard library through the parser on every run (disasm stream)",
                    "Go panics are observed by recover() in the harness and reported as the reply PANIC; the model answers PANIC exactly where one of its slicing/indexing primitives fails, and C16.parse_total proves that never happens"],
        "assumptions": ["read failures: the implementation is run on a directory and a /proc file (first read fails), a missing path, over-long lines (ErrTooLong after earlier lines were processed) and, in a child under strace fault injection, on long listings whose second or third read(2) fails with EIO (where strace cannot trace, these cases are skipped and counted as read-fault:not-injected); failure after every other number of lines is covered by the theorem on the model",
                        "int is 64 bits wide on the host (int(num) is the identity)"],
    },
    "C12": {
        "wasm_probe": True,
        "lean": ["Seccomp.Proofs.C12"],
        # -n = number of fresh processes whose complete name→number maps are compared
        "streams": [{"stream": "tables", "profile": "all", "quick": 5, "thorough": 20, "thorough_seeds": 1, "corpus": "C12", "timeout": 900}],
        "hook": _c12_hook,
        "hook_on_build_failure": True,   # a duplicate number is a Go compile error: the hook still names the entry
        "exhaustive": True,
        "rule": "finite: all five tables × every entry, every alias key, every Info row, every oracle source — decided completely by kernel evaluation and re-observed on the compiled package",
        "trusted": [
            "the independent sources as installed on this host: linux-libc-dev 6.1 UAPI headers (asm/unistd_64.h, unistd_32.h, unistd_x32.h, asm-generic/unistd.h evaluated by gcc with the six __ARCH_WANT_* macros of arm64 and 64-bit long; linux/audit.h + elf-em.h), Go 1.23 syscall/zsysnum_linux_*.go, golang.org/x/sys v0.19.0 / v0.29.0 / v0.48.0 zsysnum_linux_*.go; syscalls newer than 6.1 are covered by x/sys v0.48 only; the kernel's arm table is not installed, arm is compared with the Go sources only; x32 with unistd_x32.h only",
            "name normalisation of the sources (strip __NR_ / SYS_, lower-case; documented in harness/cmd/vextract/oracle.go) and the Nat coding of names emitted by the translator (Arch.enc; spot-checked at string level by C12.oracle_examples, injective by C12.name_code_injective)",
            "the hand-written expectations of Proofs/C12.lean: which alias names which Linux architecture, which architectures have tables, which AUDIT_ARCH_* constant belongs to which Info, the ABI column values of syscall_64.tbl (common/64/x32)",
            "gcc 12 as evaluator of the header macros",
        ],
        "assumptions": [
            "Go map semantics: a map literal holds exactly its entries; `range` visits each entry once in an unspecified order (the model quantifies over all orders)",
            "strings.ToLower is modelled by ASCII lower-casing plus U+0130→i, U+212A→k; that no other non-ASCII rune lower-cases into ASCII is checked for all 0x110000 code points of the toolchain in use on every run",
            "runtime.GOARCH is a parameter of the model (the empty name); only amd64 is executed on this host",
            "the generator arch/mk_syscalls_linux.go cannot download kernel sources offline: its ABI-column filter is checked as a regenerated literal and by executing a copy (base URL redirected to a local five-row fixture), not by regenerating zsyscalls.go",
        ],
    },
    "C13": {
        "lean": ["Seccomp.Proofs.C13"],
        "go_builds": [_race_build()],
        "streams": [
            {"stream": "text", "profile": "mix", "quick": 4000, "thorough": 150000, "thorough_seeds": 2, "corpus": "text"},
            {"stream": "purity", "profile": "mix", "quick": 400, "thorough": 6000, "thorough_seeds": 2, "corpus": "purity", "timeout": 3000},
            # the same stream with the race detector: a "WARNING: DATA RACE" of a child is a failing input
            {"tool": "vdiff-race", "stream": "purity", "profile": "race", "quick": 80, "thorough": 2500, "thorough_seeds": 2, "timeout": 3000,
             "args": ["-stream", "purity", "-profile", "race", "-model", _MODEL, "-corpus", _os.path.join(_VERIF, "corpus", "purity")]},
        ],
        "trusted": ["the effect summary Gen/Purity.lean is syntactic: static call graph over go/types Uses (calls through interfaces/function values and fmt's use of String methods are not followed), no alias analysis beyond 'fresh local slice'; the package's use of package unsafe is confined to init (assembler.go) and constants",
                    "Go memory model and race detector (thorough and quick tier run a -race build of the harness); map iteration order is modelled as an arbitrary permutation",
                    "encoding/binary.LittleEndian/BigEndian (read by LdHi/LdLo) are never written by anyone"],
        "assumptions": ["PARTIAL: freedom from data races under all schedules is monitored (up to 16 goroutines, copies sharing slices, -race build), not proved",
                        "the model equals the code on the generated policies (exact instruction lists); determinism of the model is trivial, determinism of the code is the tie plus compile_pure"],
    },
    "C14": {
        "lean": ["Seccomp.Proofs.C14"],
        "streams": [
            {"stream": "text", "profile": "mix", "quick": 6000, "thorough": 300000, "thorough_seeds": 2, "corpus": "text"},
            {"stream": "config", "profile": "mix", "quick": 1500, "thorough": 40000, "thorough_seeds": 2, "corpus": "config", "timeout": 3000},
        ],
        "trusted": ["unicode.ToLower is modelled for every code point from the toolchain's unicode.CaseRanges (regenerated into Gen/Names.lean by the same toolchain that builds the code under test; Go's bisection over the table is modelled as first match); Go's UTF-8 decoder is modelled by Text.decodeAll; both are compared on random byte strings on every run (TXT lo/ua/uo requests)",
                    "the documented names/constants (README, cmd/sandbox/seccomp.yml, linux/seccomp.h) are written down in Proofs/C14.lean and, independently, in harness/cmd/vdiff/stream_text.go"],
        "assumptions": ["PARTIAL: go-ucfg (yaml and json packages), gopkg.in/yaml.v2 and encoding/json are exercised (exactly as cmd/sandbox parsePolicy uses them), not modelled",
                        "go-ucfg's json package decodes numbers as float64: 64-bit operands above 2^53 are rounded there (2^64-1 becomes 2^63). This third-party path is outside the documented YAML path; the harness predicts the rounding exactly and counts it (distribution tag ucfg-json:float64-rounding…); JSON text read through the YAML loader is exact",
                        "policies with an empty condition list or without default_action are outside the generated set (the loader rejects `arguments: []`; a missing default_action reads as kill_thread)"],
    },
    "C17": {
        "lean": ["Seccomp.Proofs.C17"],
        "streams": [{"tool": "vprof", "stream": "profiler", "profile": "cache", "quick": 60, "thorough": 1500, "thorough_seeds": 2, "args": ["-profile", "cache"], "timeout": 1500}],
        "trusted": CACHE_TRUST,
        "assumptions": ["rename(2) replaces the cache path atomically: at every instant it holds its previous content or the complete content of the temporary file (Model/Cache.lean osRename; an assumption about the file system, not proved)",
                        "a file is identified with its path; writes to one path do not change another; bytes buffered in the bufio.Writer are lost at a crash, bytes handed to write(2) are in the file (no torn or reordered page-cache write-back after a machine crash is modelled: the crash is a process crash)",
                        "SHA-256 identifies the binary and the disassembly is a function of the binary (theorem hypothesis `listing = L hash`)",
                        "crash points on the real binary are sampled (SIGKILL at the 7 chunk boundaries of the disassembler's output, disassembler failing after j chunks, missing tool, rebuilt binary); crash points inside Flush/Close/Rename and I/O faults are covered by the theorem on the model only"],
    },
    "C18": {
        "lean": ["Seccomp.Proofs.C18"],
        "streams": [{"tool": "vprof", "stream": "profiler", "profile": "profile", "quick": 600, "thorough": 20000, "thorough_seeds": 2, "args": ["-profile", "profile"], "timeout": 3000},
                    {"tool": "vprof", "stream": "profiler", "profile": "overlap", "quick": 200, "thorough": 5000, "thorough_seeds": 1, "args": ["-profile", "overlap"], "timeout": 3000}],
        "trusted": CBPF_TRUST + ["the driver harness/cmd/vprof (synthetic listings, flag spellings, YAML read-back through go-ucfg exactly as cmd/sandbox parsePolicy, go/parser for the code output)",
                                 "disasm.ExtractSyscalls supplies the found sites of each synthetic listing (its own correctness is C16)"],
        "assumptions": ["sort.Strings orders byte-wise; Lean's String order is by code point, which is the same order on valid UTF-8 (all table names are ASCII)",
                        "overlapping blacklist / allow list (outside the property's 'disjoint' clause) is checked in its own stream against the documented behaviour 'allow: always include them in the profile'"],
    },
}
