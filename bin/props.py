"""Per-property configuration of bin/check: proof modules (obligations) and correspondence streams."""
import os as _os

_VERIF = _os.path.dirname(_os.path.dirname(_os.path.abspath(__file__)))
_MODEL = _os.path.join(_VERIF, "lean", ".lake", "build", "bin", "model")
_HBIN = _os.path.join(_VERIF, "harness", "bin")


def _race_build():
    """second copy of vdiff built with the race detector (needs cgo; works offline here: gcc + the toolchain's race runtime).
    For a scratch copy of the repository (VERIF_REPO) bin/check has written harness/go.alt.mod before this command runs."""
    repo = _os.environ.get("VERIF_REPO", "/repo")
    flags = "-mod=mod" + (" -modfile=go.alt.mod" if _os.path.realpath(repo) != "/repo" else "")
    return {"cmd": ["go", "build", "-race", "-tags", "verif", "-o", _os.path.join(_HBIN, "vdiff-race"), "./cmd/vdiff"],
            "env": {"CGO_ENABLED": "1", "GOFLAGS": flags}}

TRUSTED_COMMON = [
    "Lean 4.33.0 kernel (thorough tier: re-checked by leanchecker); axioms per theorem as printed by #print axioms, allowed: propext, Classical.choice, Quot.sound; no sorry/admit/native_decide/bv_decide/own axioms (source audit on every run)",
    "the statements: Model/Spec.lean, Model/Bpf.lean (run), Model/Tok.lean (runT), Model/Event.lean (words), and the property files Proofs/Cxx.lean",
    "the correspondence harness (harness/cmd/vdiff, Go, linked against /repo built with -tags verif) and its generators; exact-output comparison with the executable model (lean_exe model)",
    "the translator harness/cmd/vextract (go/packages + go/types over /repo's working tree) which regenerates lean/Seccomp/Gen/*.lean on every run",
]

CBPF_TRUST = [
    "classic-BPF meaning of the four instruction kinds the compiler emits (Model/Bpf.lean) — validated against the running kernel under C08",
]


KERNEL_TRUST = [
    "abstract kernel Model/Kernel.lean: seccomp(2)/prctl(2) semantics incl. TSYNC all-or-nothing with the positive-tid refusal, EACCES without no_new_privs/CAP_SYS_ADMIN, EINVAL for unknown flags / rejected programs — modelled, validated against the running kernel (6.18) by live histories",
    "the skeleton translator (harness/cmd/vextract/skeleton.go): Go statement subset → Lean state-passing definitions (Gen/Skeletons.lean); anything outside the subset becomes an opaque step of an arbitrary oracle U",
]


def policy_stream(profile, quick, thorough, corpus=None, seeds=3, extra=None):
    d = {"stream": "policy", "profile": profile, "quick": quick, "thorough": thorough, "thorough_seeds": seeds}
    if corpus:
        d["corpus"] = corpus
    if extra:
        d.update(extra)
    return d


PROPS = {
    "C01": {
        "lean": ["Seccomp.Proofs.C01"],
        "streams": [policy_stream("names", 1500, 30000, corpus="policy")],
        "trusted": CBPF_TRUST + ["x86_64/i386/arm/aarch64/x32 tables enter only through the correspondence (the theorems hold for every table)"],
        "assumptions": ["the model equals the code on the generated policies (exact instruction lists, all four table architectures, both byte orders); the theorem covers all policies of the model"],
    },
    "C02": {
        "lean": ["Seccomp.Proofs.C02"],
        "streams": [policy_stream("single", 3000, 60000, corpus="policy")],
        "trusted": CBPF_TRUST,
        "assumptions": ["little- and big-endian layouts are compiled through the verif hook VerifSetNativeEndian (the suite only runs big-endian, production little-endian)"],
    },
    "C03": {
        "lean": ["Seccomp.Proofs.C03"],
        "streams": [policy_stream("conds", 1500, 30000, corpus="policy")],
        "trusted": CBPF_TRUST,
        "assumptions": [],
    },
    "C04": {
        "lean": ["Seccomp.Proofs.C04"],
        "streams": [policy_stream("names", 600, 10000, corpus="policy"), policy_stream("long", 150, 3000, corpus="policy")],
        "trusted": CBPF_TRUST,
        "assumptions": [],
    },
    "C05": {
        "lean": ["Seccomp.Proofs.C05"],
        "streams": [policy_stream("mix", 500, 10000, corpus="policy"), policy_stream("defects", 500, 10000, corpus="policy")],
        "trusted": CBPF_TRUST + ["port of the kernel's classic-BPF/seccomp checker (Model/Raw.lean), validated against the running kernel only"],
        "assumptions": [],
    },
    "C06": {
        "lean": ["Seccomp.Proofs.C06"],
        "streams": [{"stream": "builder", "profile": "mix", "quick": 3000, "thorough": 100000, "thorough_seeds": 2, "corpus": "builder"},
                    policy_stream("long", 200, 4000, corpus="policy")],
        "trusted": CBPF_TRUST,
        "assumptions": [],
    },
    "C07": {
        "lean": ["Seccomp.Proofs.C07"],
        "streams": [policy_stream("defects", 3000, 60000, corpus="policy")],
        "trusted": ["Go panics are observed by recover() in the harness and reported as the reply PANIC (never produced by the model)"],
        "assumptions": ["the architecture-without-tables case is reached through arch.GetInfo (C12/C19), not through Policy.Assemble on this host"],
    },
    "C09": {
        "lean": ["Seccomp.Proofs.C09"],
        "streams": [{"tool": "vprobe", "stream": "kernel", "profile": "load", "quick": 60, "thorough": 1500, "thorough_seeds": 2, "args": ["-profile", "load"]}],
        "trusted": KERNEL_TRUST,
        "assumptions": ["kernel semantics of seccomp(2)/prctl(2) as modelled in Model/Kernel.lean (validated against the running kernel by the histories of this run, on this kernel only)"],
    },
    "C10": {
        "lean": ["Seccomp.Proofs.C10"],
        "streams": [{"tool": "vprobe", "stream": "kernel", "profile": "tsync", "quick": 40, "thorough": 800, "thorough_seeds": 2, "args": ["-profile", "tsync"]}],
        "trusted": KERNEL_TRUST,
        "assumptions": ["the kernel performs a thread-sync attach as one atomic step (sighand->siglock + cred_guard_mutex): assumption about Linux, modelled by sysSeccomp",
                        "interleavings of real threads are sampled (up to 63 extra threads spinning, sleeping, blocked in read, spawning threads), not enumerated"],
    },
    "C11": {
        "lean": ["Seccomp.Proofs.C11"],
        "streams": [{"tool": "vprobe", "stream": "kernel", "profile": "nnp", "quick": 60, "thorough": 1500, "thorough_seeds": 2, "args": ["-profile", "nnp"]}],
        "trusted": KERNEL_TRUST,
        "assumptions": ["the Go scheduler is modelled as: the goroutine may continue on any live thread at a schedule point unless runtime.LockOSThread is in effect",
                        "the harness forces migration attempts at the hook between prctl and seccomp (sleep + Gosched with busy Ps)"],
    },
    "C13": {
        "lean": ["Seccomp.Proofs.C13"],
        "go_builds": [_race_build()],
        "streams": [
            {"stream": "text", "profile": "mix", "quick": 4000, "thorough": 150000, "thorough_seeds": 2, "corpus": "text"},
            {"stream": "purity", "profile": "mix", "quick": 400, "thorough": 6000, "thorough_seeds": 2, "corpus": "purity", "timeout": 3000},
            # the same stream with the race detector: a "WARNING: DATA RACE" of a child is a failing input
            {"tool": "vdiff-race", "stream": "purity", "profile": "race", "quick": 80, "thorough": 2500, "thorough_seeds": 2, "timeout": 3000,
             "args": ["-stream", "purity", "-profile", "race", "-model", _MODEL, "-corpus", _os.path.join(_VERIF, "corpus", "purity")]},
        ],
        "trusted": ["the effect summary Gen/Purity.lean is syntactic: static call graph over go/types Uses (calls through interfaces/function values and fmt's use of String methods are not followed), no alias analysis beyond 'fresh local slice'; the package's use of package unsafe is confined to init (assembler.go) and constants",
                    "Go memory model and race detector (thorough and quick tier run a -race build of the harness); map iteration order is modelled as an arbitrary permutation",
                    "encoding/binary.LittleEndian/BigEndian (read by LdHi/LdLo) are never written by anyone"],
        "assumptions": ["PARTIAL: freedom from data races under all schedules is monitored (up to 16 goroutines, copies sharing slices, -race build), not proved",
                        "the model equals the code on the generated policies (exact instruction lists); determinism of the model is trivial, determinism of the code is the tie plus compile_pure"],
    },
    "C14": {
        "lean": ["Seccomp.Proofs.C14"],
        "streams": [
            {"stream": "text", "profile": "mix", "quick": 6000, "thorough": 300000, "thorough_seeds": 2, "corpus": "text"},
            {"stream": "config", "profile": "mix", "quick": 1500, "thorough": 40000, "thorough_seeds": 2, "corpus": "config", "timeout": 3000},
        ],
        "trusted": ["unicode.ToLower is modelled for every code point from the toolchain's unicode.CaseRanges (regenerated into Gen/Names.lean by the same toolchain that builds the code under test; Go's bisection over the table is modelled as first match); Go's UTF-8 decoder is modelled by Text.decodeAll; both are compared on random byte strings on every run (TXT lo/ua/uo requests)",
                    "the documented names/constants (README, cmd/sandbox/seccomp.yml, linux/seccomp.h) are written down in Proofs/C14.lean and, independently, in harness/cmd/vdiff/stream_text.go"],
        "assumptions": ["PARTIAL: go-ucfg (yaml and json packages), gopkg.in/yaml.v2 and encoding/json are exercised (exactly as cmd/sandbox parsePolicy uses them), not modelled",
                        "go-ucfg's json package decodes numbers as float64: 64-bit operands above 2^53 are rounded there (2^64-1 becomes 2^63). This third-party path is outside the documented YAML path; the harness predicts the rounding exactly and counts it (distribution tag ucfg-json:float64-rounding…); JSON text read through the YAML loader is exact",
                        "policies with an empty condition list or without default_action are outside the generated set (the loader rejects `arguments: []`; a missing default_action reads as kill_thread)"],
    },
}
