#!/usr/bin/env python3
"""regenerates the table of DESIGN.md §11.4 from seeded/*/meta.json"""
import json, glob, os, re
V = os.path.dirname(os.path.dirname(os.path.abspath(__file__)))
rows = []
for f in sorted(glob.glob(os.path.join(V, "seeded", "*", "meta.json"))):
    m = json.load(open(f))
    name = os.path.basename(os.path.dirname(f))
    found = any("no-failing-input-found" not in l for l in m.get("violation_lines", []))
    caught = ", ".join("%s %s" % (k, "caught" if v == "CAUGHT" else "MISSED") for k, v in sorted(m.get("checks_run", {}).items()))
    patch = open(os.path.join(os.path.dirname(f), "patch.diff")).read()
    files = sorted(set(re.findall(r"^\+\+\+ b/(\S+)", patch, re.M)))
    rows.append("| %s | %s | %s | %s | %s |" % (name, ", ".join(files), m["needs_to_manifest"].replace("|", "/"), caught,
                                            "concrete failing input" if found else "broken proof / correspondence only"))
table = ("| seeded change | touches | needs, in order to manifest | checks run | replay |\n|---|---|---|---|---|\n" + "\n".join(rows) + "\n")
p = os.path.join(V, "DESIGN.md")
s = open(p).read()
a = s.index("### 11.4 What catches what")
b = s.index("\n### 11.5 Per property, as built")
intro = open(os.path.join(V, "design-notes", "catches-intro.md")).read()
s = s[:a] + "### 11.4 What catches what\n\n" + intro + "\n" + table + s[b:]
open(p, "w").write(s)
print(len(rows), "rows")
