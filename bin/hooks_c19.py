"""C19: search of the regenerated per-target facts (work/facts.json) for a concrete failing input.

The theorems of lean/Seccomp/Proofs/C19.lean are decided by the Lean kernel over Gen/Consts.lean; when
one of them breaks the kernel only says "false".  This step re-evaluates the same statements in python
over the JSON mirror of the same facts and names the (target, constant, value, expected) — or the
(target, stub, body) — that fails, and confirms a constant difference with the real Go compiler for
that target (an overlay file with a constant expression that only compiles when the values are equal;
nothing is written into the repository).
"""
import json, os, subprocess, tempfile

VERIF = os.path.dirname(os.path.dirname(os.path.abspath(__file__)))

PAIRING = [
    ("SECCOMP_RET_KILL_THREAD", "ActionKillThread"), ("SECCOMP_RET_KILL_PROCESS", "ActionKillProcess"),
    ("SECCOMP_RET_TRAP", "ActionTrap"), ("SECCOMP_RET_ERRNO", "ActionErrno"), ("SECCOMP_RET_TRACE", "ActionTrace"),
    ("SECCOMP_RET_LOG", "ActionLog"), ("SECCOMP_RET_ALLOW", "ActionAllow"), ("SECCOMP_RET_USER_NOTIF", "ActionUserNotify"),
    ("SECCOMP_FILTER_FLAG_TSYNC", "FilterFlagTSync"), ("SECCOMP_FILTER_FLAG_LOG", "FilterFlagLog"),
    ("PR_SET_NO_NEW_PRIVS", "prSetNoNewPrivs"), ("SECCOMP_SET_MODE_STRICT", "seccompSetModeStrict"),
    ("SECCOMP_SET_MODE_FILTER", "seccompSetModeFilter"), ("EPERM", "errnoEPERM"),
]
LAYOUT = [("offsetof_nr", "syscallNumOffset"), ("offsetof_arch", "archOffset"), ("offsetof_args", "argumentOffset"),
          ("sizeof_arg", "sizeOfUint64"), ("sizeof_nr", "sizeOfUint32"), ("__X32_SYSCALL_BIT", "x32SyscallMask")]
MIPS = ("mips", "mipsle", "mips64", "mips64le")
MIPS_ENOSYS = 89          # arch/mips/include/uapi/asm/errno.h — the one hand-written oracle row (see Proofs/C19.lean)
STUBS = ("Supported", "SetNoNewPrivs", "LoadFilter")
# constants hard-wired in the Lean model (Model/Policy.lean, Model/Lower.lean, Model/Spec.lean)
MODEL = {"ActionKillThread": 0x0, "ActionKillProcess": 0x80000000, "ActionTrap": 0x30000, "ActionErrno": 0x50000,
         "ActionTrace": 0x7ff00000, "ActionLog": 0x7ffc0000, "ActionAllow": 0x7fff0000, "errnoEPERM": 1,
         "errnoENOSYS": 38, "archOffset": 4, "syscallNumOffset": 0, "argumentOffset": 16, "sizeOfUint64": 8, "sizeOfUint32": 4}


def is_linux(t):
    return t["goos"] in ("linux", "android")


def consts(l):
    return {c["name"]: (int(c["val"]) if c.get("is_nat") else c["val"]) for c in (l or [])}


def hexv(v):
    return hex(v) if isinstance(v, int) else repr(v)


def search(facts):
    """returns a list of findings: dict(key, const, where, value, expected, targets[], kind, detail)"""
    uapi = {u["name"]: u["val"] for u in facts.get("uapi", [])}
    uapi_all = {u["name"]: u["val"] for u in facts.get("uapiAll", [])}
    groups = {}
    stats = {"evaluations": 0, "nontrivial": 0, "samples": []}

    def tick(target, what, value, expected):
        """one (target, fact) comparison; trivial when the expected value is 0 (an absent constant looks the same)"""
        stats["evaluations"] += 1
        if expected not in (0, None, "", False):
            stats["nontrivial"] += 1
            if len(stats["samples"]) < 3 and (not stats["samples"] or stats["samples"][-1]["target"] != target):
                stats["samples"].append({"target": target, "fact": what, "value": value, "expected": expected})

    def add(kind, name, value, expected, target, detail=""):
        k = (kind, name, str(value), str(expected))
        g = groups.setdefault(k, {"kind": kind, "name": name, "value": value, "expected": expected, "targets": [], "detail": detail})
        g["targets"].append(target)

    host = None
    for t in facts.get("targets", []):
        name = "%s/%s" % (t["goos"], t["goarch"])
        if name == "linux/amd64":
            host = t
        if t.get("load_error"):
            add("build", "load", t["load_error"][:200], "module loads", name)
            continue
        if not t.get("lib_builds"):
            errs = [e for p in t["pkgs"] if not p["ok"] and not p["main"] for e in p["errors"]]
            add("build", "library packages type-check", "; ".join(errs)[:600] or "ill-typed", "no errors", name)
            continue
        ux, rt, ar = consts(t["unix"]), consts(t["root"]), consts(t["arch"])
        for u, r in PAIRING:
            tick(name, "internal/unix.%s" % u, ux.get(u), uapi.get(u))
            tick(name, "seccomp.%s" % r, rt.get(r), uapi.get(u))
            if ux.get(u) != uapi.get(u):
                add("const", "internal/unix.%s" % u, ux.get(u), uapi.get(u), name, "kernel header value of %s" % u)
            if rt.get(r) != uapi.get(u):
                add("const", "seccomp.%s" % r, rt.get(r), uapi.get(u), name, "kernel header value of %s" % u)
        # every constant of internal/unix that bears the name of a kernel macro (theorem same_named_constants_equal_uapi)
        for u, v in sorted(ux.items()):
            if u in uapi_all:
                tick(name, "internal/unix.%s (same-named macro)" % u, v, uapi_all[u])
                if v != uapi_all[u]:
                    add("const", "internal/unix.%s" % u, v, uapi_all[u], name, "kernel header value of the macro %s" % u)
        want = MIPS_ENOSYS if (is_linux(t) and t["goarch"] in MIPS) else uapi.get("ENOSYS")
        tick(name, "internal/unix.ENOSYS", ux.get("ENOSYS"), want)
        tick(name, "seccomp.errnoENOSYS", rt.get("errnoENOSYS"), want)
        if ux.get("ENOSYS") != want:
            add("const", "internal/unix.ENOSYS", ux.get("ENOSYS"), want, name, "ENOSYS of the target's kernel")
        if rt.get("errnoENOSYS") != want:
            add("const", "seccomp.errnoENOSYS", rt.get("errnoENOSYS"), want, name, "ENOSYS of the target's kernel")
        for u, r in LAYOUT:
            tick(name, "seccomp.%s" % r, rt.get(r), uapi.get(u))
            if rt.get(r) != uapi.get(u):
                add("const", "seccomp.%s" % r, rt.get(r), uapi.get(u), name, "%s of struct seccomp_data / asm/unistd.h" % u)
        if ar.get("x32SyscallMask") != uapi.get("__X32_SYSCALL_BIT"):
            add("const", "arch.x32SyscallMask", ar.get("x32SyscallMask"), uapi.get("__X32_SYSCALL_BIT"), name, "__X32_SYSCALL_BIT")
        funcs = {f["name"]: f for f in t["funcs"]}
        files = t["files"]
        tick(name, "selected loader file", ",".join(f for f in files if f.startswith("seccomp_")), "seccomp_linux.go" if is_linux(t) else "seccomp_unsupported.go")
        for s_ in STUBS:
            tick(name, "%s: file, has_call, ret" % s_, [funcs.get(s_, {}).get(k) for k in ("file", "has_call", "ret")],
                 "seccomp_linux.go" if is_linux(t) else "stub without call")
        if is_linux(t):
            if "seccomp_linux.go" not in files or "seccomp_unsupported.go" in files:
                add("select", "file selection", ",".join(f for f in files if f.startswith("seccomp_")), "seccomp_linux.go only", name)
            for s in STUBS:
                if funcs.get(s, {}).get("file") != "seccomp_linux.go":
                    add("select", "func %s defined in" % s, funcs.get(s, {}).get("file"), "seccomp_linux.go", name)
        else:
            if "seccomp_unsupported.go" not in files or "seccomp_linux.go" in files:
                add("select", "file selection", ",".join(f for f in files if f.startswith("seccomp_")), "seccomp_unsupported.go only", name)
            for s in STUBS:
                f = funcs.get(s, {})
                if f.get("file") != "seccomp_unsupported.go":
                    add("stub", "func %s defined in" % s, f.get("file"), "seccomp_unsupported.go", name)
                elif f.get("has_call"):
                    add("stub", "stub %s contains a call" % s, f.get("body"), "a body without call expressions", name)
            sup = funcs.get("Supported", {})
            if sup.get("file") == "seccomp_unsupported.go" and sup.get("ret") != "false":
                add("stub", "stub Supported returns", sup.get("body"), "{ return false }", name)
            if t.get("stub_imports"):
                add("stub", "seccomp_unsupported.go imports", ", ".join(t["stub_imports"]), "no imports", name)
            if t.get("stub_other_decls"):
                add("stub", "seccomp_unsupported.go declares more than the three stubs", ", ".join(t["stub_other_decls"]), "nothing else", name)
        row = t.get("goarch_row", {})
        if not (row.get("has_key") and row.get("has_table")) and ux.get("ENOSYS") is not None:
            pass  # GetInfo("") must be an error there: decided over Gen.arches/archRows; run-time side in the consts stream
    if host is not None and host.get("lib_builds"):
        rt = consts(host["root"])
        for n, v in MODEL.items():
            if rt.get(n) != v:
                add("model", "seccomp.%s" % n, rt.get(n), v, "linux/amd64", "constant hard-wired in the Lean model")
    out = []
    for (kind, name, _, _), g in sorted(groups.items(), key=lambda kv: kv[0]):
        g["key"] = "C19:%s:%s:%s" % (kind, name.replace(" ", "_"), g["targets"][0])
        out.append(g)
    return out, stats


PKG_OF = {"internal/unix": "internal/unix", "seccomp": ".", "arch": "arch"}


def confirm_with_compiler(repo, finding):
    """compiles the package for the first failing target with an overlay file asserting `const == expected`;
    returns a line of text (the compiler rejects the assertion <=> the difference is real)"""
    if finding["kind"] not in ("const", "model") or not isinstance(finding["expected"], int) or not isinstance(finding["value"], int):
        return None
    pkgname, cname = finding["name"].rsplit(".", 1)
    rel = PKG_OF.get(pkgname)
    if rel is None:
        return None
    goos, goarch = finding["targets"][0].split("/")
    pkgdir = os.path.normpath(os.path.join(os.path.realpath(repo), rel))
    gopkg = {"internal/unix": "unix", "seccomp": "seccomp", "arch": "arch"}[pkgname]
    src = ("package %s\n\n// compiles only if %s == %d (a negative constant cannot be converted to uint64)\n"
           "const _ = uint64(%s) - %d\nconst _ = %d - uint64(%s)\n" % (gopkg, cname, finding["expected"], cname, finding["expected"], finding["expected"], cname))
    with tempfile.TemporaryDirectory(prefix="c19-overlay") as d:
        f = os.path.join(d, "zz_verif_c19_assert.go")
        open(f, "w").write(src)
        ov = os.path.join(d, "overlay.json")
        json.dump({"Replace": {os.path.join(pkgdir, "zz_verif_c19_assert.go"): f}}, open(ov, "w"))
        env = dict(os.environ, GOOS=goos, GOARCH=goarch, CGO_ENABLED="0", GOFLAGS="-mod=readonly", GOPROXY="off", GOSUMDB="off", GOTOOLCHAIN="local")
        try:
            p = subprocess.run(["go", "build", "-overlay", ov, "./" + rel if rel != "." else "."], cwd=os.path.realpath(repo), env=env,
                               capture_output=True, text=True, timeout=300)
        except Exception as e:
            return "compiler confirmation not run: %s" % e
    msg = (p.stdout + p.stderr).strip().replace("\n", " | ")[:400]
    if p.returncode != 0 and "zz_verif_c19_assert.go" in msg:
        return "confirmed by the Go compiler for %s/%s: `%s == %d` is rejected: %s" % (goos, goarch, cname, finding["expected"], msg)
    if p.returncode == 0:
        return "NOT confirmed: the Go compiler for %s/%s accepts `%s == %d` (translator and compiler disagree)" % (goos, goarch, cname, finding["expected"])
    return "compiler confirmation inconclusive (rc=%d): %s" % (p.returncode, msg)


def hook(check, failed, mism):
    repo = os.environ.get("VERIF_REPO", "/repo")
    path = os.path.join(VERIF, "work", "facts.json")
    try:
        facts = json.load(open(path))
    except Exception as e:
        check.violation("C19:facts", "work/facts.json unreadable: %s" % e, False, "broken: translator output\n")
        return
    targets = facts.get("targets", [])
    findings, stats = search(facts)
    check.ev["streams"].append({
        "stream": "facts-recheck", "profile": "python", "seed": check.seed, "evaluations": stats["evaluations"],
        "distinct_nontrivial": stats["nontrivial"], "mismatches": [], "samples": [json.dumps(x) for x in stats["samples"]],
        "distribution": {"targets": len(targets)},
        "rule": "python re-evaluation of the C19 statements over work/facts.json: one case per (target, fact) — every constant of the pairing in internal/unix "
                "and in the root package, ENOSYS, the record layout, the selected loader file, the three entry points; distinct by construction; "
                "non-trivial unless the expected value is 0",
    })
    extra = check.ev.setdefault("extra", {})
    extra["targets"] = ["%s/%s" % (t["goos"], t["goarch"]) for t in targets]
    extra["target_list"] = facts.get("targetListKind")
    extra["targets_library_typechecks"] = sum(1 for t in targets if t.get("lib_builds"))
    extra["targets_all_packages_typecheck"] = sum(1 for t in targets if t.get("builds"))
    extra["constants_compared_per_target"] = 2 * len(PAIRING) + 2 + len(LAYOUT) + 1
    extra["non_linux_targets_with_inert_stubs"] = sum(1 for t in targets if not is_linux(t) and not t.get("load_error")
                                                      and all(not f["has_call"] and f["file"] == "seccomp_unsupported.go" for f in t["funcs"]))
    extra["goarch_without_table"] = sorted(set(t["goarch"] for t in targets if not (t["goarch_row"]["has_key"] and t["goarch_row"]["has_table"])))
    extra["python_recheck_findings"] = len(findings)
    extra["uapi_oracle"] = facts.get("uapiSource")
    for g in findings[:6]:
        tl = g["targets"]
        where = tl[0] if len(tl) == 1 else "%s (and %d more: %s)" % (tl[0], len(tl) - 1, ", ".join(tl[1:8]))
        if g["kind"] in ("const", "model"):
            text = "target %s: %s = %s, expected %s (%s)" % (where, g["name"], hexv(g["value"]), hexv(g["expected"]), g["detail"])
        elif g["kind"] == "build":
            text = "target %s: %s fails: %s" % (where, g["name"], g["value"])
        else:
            text = "target %s: %s: %s, expected %s" % (where, g["name"], g["value"], g["expected"])
        body = ("failing input: build target %s\nconstant/fact: %s\nvalue under that target: %s\nexpected: %s %s\nall failing targets: %s\n"
                % (tl[0], g["name"], hexv(g["value"]) if g["kind"] in ("const", "model") else g["value"],
                   hexv(g["expected"]) if g["kind"] in ("const", "model") else g["expected"], ("(" + g["detail"] + ")") if g["detail"] else "", ", ".join(tl)))
        c = confirm_with_compiler(repo, g)
        if c:
            body += c + "\n"
        body += "source of the facts: go/types evaluation of %s under GOOS/GOARCH (work/facts.json, lean/Seccomp/Gen/Consts.lean)\n" % repo
        if failed:
            body += "broken obligations: " + "; ".join(n for n, _ in failed[:8]) + "\n"
        check.violation(g["key"], text, True, body)


def replay(path):
    """bin/check C19 --replay FILE: re-extracts the facts of the replay's build target from the repository's
    current working tree and re-evaluates the statement; exit 1 if the recorded fact still fails"""
    import re, shutil
    repo = os.environ.get("VERIF_REPO", "/repo")
    text = open(path).read()
    m = re.search(r"^failing input: build target (\S+)", text, re.M)
    fact = re.search(r"^constant/fact: (.*)$", text, re.M)
    if not m:
        # a correspondence replay (GetInfo / go build / go vet): the recorded command or request is in the file
        print(text)
        cmd = re.search(r"^failing input: target \S+: (cd .*)$", text, re.M)
        if cmd:
            p = subprocess.run(["sh", "-c", cmd.group(1)], capture_output=True, text=True, timeout=1800)
            print((p.stdout + p.stderr)[-3000:])
            print("still failing" if p.returncode != 0 else "passes now")
            return 1 if p.returncode != 0 else 0
        return 0
    target = m.group(1)
    env = dict(os.environ, GOFLAGS="-mod=mod", GOPROXY="off", GOSUMDB="off", GOTOOLCHAIN="local", CGO_ENABLED="0")
    vx = os.path.join(VERIF, "harness", "bin", "vextract")
    if not os.path.exists(vx):
        subprocess.run(["go", "build", "-tags", "verif", "-o", os.path.join(VERIF, "harness", "bin") + "/", "./cmd/vextract"],
                       cwd=os.path.join(VERIF, "harness"), env=env, check=True, timeout=900)
    d = tempfile.mkdtemp(prefix="c19-replay")
    try:
        js = os.path.join(d, "facts.json")
        p = subprocess.run([vx, "-repo", repo, "-out", d, "-json", js, "-only", "consts", "-targets", target], env=env,
                           capture_output=True, text=True, timeout=900)
        if p.returncode != 0:
            print("vextract failed:", p.stdout, p.stderr)
            return 2
        findings, _ = search(json.load(open(js)))
    finally:
        shutil.rmtree(d, ignore_errors=True)
    hit = [g for g in findings if target in g["targets"] and (not fact or g["name"] == fact.group(1).strip())]
    print("replay of %s on %s, target %s" % (path, repo, target))
    for g in hit:
        print("STILL FAILS: %s: %s = %s, expected %s %s" % (target, g["name"], hexv(g["value"]) if isinstance(g["value"], int) else g["value"],
                                                           hexv(g["expected"]) if isinstance(g["expected"], int) else g["expected"], g["detail"]))
        c = confirm_with_compiler(repo, dict(g, targets=[target]))
        if c:
            print(c)
    if not hit:
        print("the recorded fact holds on the current tree")
    return 1 if hit else 0
