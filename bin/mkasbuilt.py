#!/usr/bin/env python3
"""Regenerates the table of DESIGN.md §11.5 from evidence/*.json (a quick run on the unchanged tree)."""
import json, os, re
V = os.path.join(os.path.dirname(os.path.abspath(__file__)), "..")
rows = ["| id | obligations | theorems (Proofs/Cxx.lean) | correspondence streams (quick tier) |", "|---|---|---|---|"]
for i in range(1, 20):
    pid = "C%02d" % i
    d = json.load(open(os.path.join(V, "evidence", pid + ".json")))
    cov = d["coverage"]
    thms = [s["obligation"].split(":")[-1] for s in cov["samples"] if "obligation" in s]
    n = cov["obligations"]
    shown = ", ".join("`%s`" % t for t in thms[:6])
    if n > 6:
        shown += " … (%d in all)" % n
    streams = sorted(set("%s/%s" % (c.get("stream"), c.get("profile")) for c in cov.get("correspondence", [])))
    rows.append("| %s | %d | %s | %s |" % (pid, n, shown, ", ".join(streams)))
p = os.path.join(V, "DESIGN.md")
s = open(p).read()
a = s.index("| id | obligations | theorems")
b = s.index("Trusted base, as built")
s = s[:a] + "\n".join(rows) + "\n\n" + s[b:]
open(p, "w").write(s)
print(len(rows) - 2, "rows")
