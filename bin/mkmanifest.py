#!/usr/bin/env python3
"""writes MANIFEST.json from bin/props.py and bin/manifest_text.py"""
import json, os, sys
sys.path.insert(0, os.path.dirname(os.path.abspath(__file__)))
from props import PROPS
from manifest_text import TEXT, NOT_BUILT
V = os.path.dirname(os.path.dirname(os.path.abspath(__file__)))
props = [json.loads(l) for l in open(os.path.join(V, "properties.jsonl"))]
checks, na = [], []
for p in props:
    pid = p["id"]
    if pid in PROPS and pid in TEXT:
        t = TEXT[pid]
        checks.append({
            "property_id": pid,
            "quick_cmd": "bin/check %s --tier quick" % pid,
            "thorough_cmd": "bin/check %s --tier thorough" % pid,
            "evidence_file": "/verif/evidence/%s.json" % pid,
            "replay_cmd_template": "bin/check %s --replay {path}" % pid,
            "engine": "lean4-proof+correspondence",
            "level_claimed": {"category": "proof", "text": t["text"], "design_ref": t["ref"]},
            "level_note": t["note"],
            "technique": t["technique"],
        })
    else:
        na.append({"property_id": pid, "reason": NOT_BUILT.get(pid, "check not built yet; see DESIGN.md §6 for the planned theorem and tie")})
m = {
    "version": 1,
    "setup_cmd": "bin/setup",
    "hooks": {
        "guard": "verif",
        "enable": "go build -tags verif (the harness module replaces github.com/elastic/go-seccomp-bpf by /repo)",
        "baseline_off_cmd": "cd /repo && go test -mod=mod -vet=off -count=1 -timeout 25m ./...",
        "source_commits": ["fc2b16c"],
        "add_only": True,
    },
    "engines": [
        {"name": "lean4-proof+correspondence", "path": "/verif/bin/check",
         "serves_properties": [c["property_id"] for c in checks],
         "kind_free_text": "Lean 4 theorems over an executable model (lean/Seccomp), regenerated data (harness/cmd/vextract) and an exact-output differential harness (harness/cmd/vdiff) against /repo built with -tags verif"}],
    "checks": checks,
    "notes": "All checks: bin/check <ID> [--tier quick|thorough]; VERIF_SEED selects the PRNG seed. Known findings: known-findings.txt. Design: DESIGN.md.",
    "not_applicable": na,
}
json.dump(m, open(os.path.join(V, "MANIFEST.json"), "w"), indent=1)
print("checks:", len(checks), "not claimed:", len(na))
